//! C02 native side: (1) exact replay of a token-level counterexample rendered to bytes (`c02_decode`), and
//! (2) an API-level confirmation battery that feeds every public `from_bytes` a grammar-generated corpus of short
//! adversarial CBOR strings plus byte-level mutations of valid samples, under catch_unwind.  It decides nothing by
//! itself: it is only consulted to confirm a solver counterexample against the real library.
use crate::csl::*;
use crate::Src;

macro_rules! types {
    ($($t:ident),* $(,)?) => {
        pub const TYPE_NAMES: &[&str] = &[$(stringify!($t)),*];
        /// Some(true) = decoded, Some(false) = rejected with an error, None = unknown type name; a panic propagates
        pub fn decode_by_name(name: &str, bytes: &[u8]) -> Option<bool> {
            match name {
                $(stringify!($t) => Some(<$t>::from_bytes(bytes.to_vec()).is_ok()),)*
                "Address" => Some(Address::from_bytes(bytes.to_vec()).is_ok()),
                "ByronAddress" => Some(ByronAddress::from_bytes(bytes.to_vec()).is_ok()),
                _ => None,
            }
        }
        /// Some(Some(bytes)) = decoded and re-serialized to bytes (a panic in either step propagates), Some(None) = rejected, None = unknown type
        pub fn reser_by_name(name: &str, bytes: &[u8]) -> Option<Option<Vec<u8>>> {
            match name {
                $(stringify!($t) => Some(<$t>::from_bytes(bytes.to_vec()).ok().map(|v| v.to_bytes())),)*
                _ => None,
            }
        }
    };
}
types!(Anchor, AssetName, AssetNames, Assets, AuxiliaryData, BigInt, BigNum, Block, BootstrapWitness, BootstrapWitnesses, Certificate, Certificates, Committee, CommitteeColdResign,
    CommitteeHotAuth, Constitution, ConstrPlutusData, CostModel, Costmdls, Credential, Credentials, DNSRecordAorAAAA, DNSRecordSRV, DRep, DRepDeregistration, DRepRegistration, DRepUpdate,
    DRepVotingThresholds, Ed25519KeyHashes, ExUnitPrices, ExUnits, FixedTransaction, GeneralTransactionMetadata, GenesisHashes, GenesisKeyDelegation, GovernanceAction, GovernanceActionId,
    HardForkInitiationAction, Header, HeaderBody, Int, Ipv4, Ipv6, Language, MIRToStakeCredentials, MetadataList, MetadataMap, Mint, MoveInstantaneousReward, MoveInstantaneousRewardsCert,
    MultiAsset, MultiHostName, NativeScript, NativeScripts, NetworkId, NewConstitutionAction, NoConfidenceAction, Nonce, OperationalCert, ParameterChangeAction, PlutusData, PlutusList,
    PlutusMap, PlutusScript, PlutusScripts, PoolMetadata, PoolParams, PoolRegistration, PoolRetirement, PoolVotingThresholds, ProposedProtocolParameterUpdates, ProtocolParamUpdate,
    ProtocolVersion, Redeemer, RedeemerTag, Redeemers, Relay, Relays, RewardAddresses, ScriptAll, ScriptAny, ScriptHashes, ScriptNOfK, ScriptPubkey, ScriptRef, SingleHostAddr, SingleHostName,
    StakeAndVoteDelegation, StakeDelegation, StakeDeregistration, StakeRegistration, StakeRegistrationAndDelegation, StakeVoteRegistrationAndDelegation, TimelockExpiry, TimelockStart,
    Transaction, TransactionBodies, TransactionBody, TransactionInput, TransactionInputs, TransactionMetadatum, TransactionMetadatumLabels, TransactionOutput, TransactionOutputs,
    TransactionUnspentOutput, TransactionWitnessSet, TransactionWitnessSets, TreasuryWithdrawalsAction, URL, UnitInterval, Update, UpdateCommitteeAction, VRFCert, Value, VersionedBlock, Vkey,
    Vkeywitness, Vkeywitnesses, VoteDelegation, VoteRegistrationAndDelegation, Voter, VotingProcedure, VotingProcedures, VotingProposal, VotingProposals, Withdrawals);

fn wf(b: &[u8]) -> bool { crate::wellformed::item_end(b, 0, 300) == Some(b.len()) }

fn draw_name_bytes<S: Src>(s: &mut S) -> (String, Vec<u8>) {
    let n = s.u8() as usize;
    let name: Vec<u8> = (0..n).map(|_| s.u8()).collect();
    let len = s.u16() as usize;
    let bytes: Vec<u8> = (0..len).map(|_| s.u8()).collect();
    (String::from_utf8(name).unwrap(), bytes)
}

/// second clause of C02 at a byte-preserving root: a value a parser returned serializes again to ONE well-formed CBOR item
pub fn c02_reser<S: Src>(s: &mut S) {
    let (name, bytes) = draw_name_bytes(s);
    let r = reser_by_name(public_name(&name), &bytes);
    s.assume(r.is_some());
    if let Some(Some(out)) = r {
        assert!(wf(&out), "{}::from_bytes accepts {:02x?} but the value re-serializes to malformed CBOR {:02x?}", name, bytes, out);
    }
}

/// the lemma behind it: a decoder that accepts has been given one well-formed item (fails when malformed bytes are ACCEPTED)
pub fn c02_lenient<S: Src>(s: &mut S) {
    let (name, bytes) = draw_name_bytes(s);
    let r = decode_by_name(public_name(&name), &bytes);
    s.assume(r.is_some());
    assert!(!(r == Some(true) && !wf(&bytes)), "{}::from_bytes accepts the malformed CBOR {:02x?}", name, bytes);
}

/// the outermost container of a valid sample (after leading tags) damaged in one of two ways that leave NO well-formed
/// item at offset 0: "declared-length" = one more element declared than present, "early-break" = the last element
/// replaced by a break although the length is definite
fn damaged_outer(sample: &[u8], class: &str) -> Option<Vec<u8>> {
    let mut p = 0usize;
    while p < sample.len() && (sample[p] >> 5) == 6 { p += match sample[p] & 0x1f { 0..=23 => 1, 24 => 2, 25 => 3, 26 => 5, _ => 9 }; }
    if p >= sample.len() { return None; }
    let (major, ai) = (sample[p] >> 5, sample[p] & 0x1f);
    if !(major == 4 || major == 5) || ai >= 23 { return None; }
    let per = if major == 5 { 2 } else { 1 };
    let mut m = sample.to_vec();
    match class {
        "declared-length" => { m[p] += 1; }
        "early-break" => {
            if ai == 0 { return None; }
            let mut q = p + 1;
            for _ in 0..((ai as usize) * per - per) { q = crate::wellformed::item_end(sample, q, 300)?; }
            let mut e = q;
            for _ in 0..per { e = crate::wellformed::item_end(sample, e, 300)?; }
            m = sample[..q].to_vec(); m.push(0xff); m.extend(&sample[e..]);
        }
        _ => return None,
    }
    if crate::wellformed::item_end(&m, 0, 300).is_some() { return None; }
    Some(m)
}

/// sample-based confirmation of a token-level witness whose nested values are opaque: (type, class) -> accepted although malformed?
pub fn c02_lenient_probe<S: Src>(s: &mut S) {
    let n = s.u8() as usize;
    let name: Vec<u8> = (0..n).map(|_| s.u8()).collect();
    let name = String::from_utf8(name).unwrap();
    let class = if s.u8() == 0 { "early-break" } else { "declared-length" };
    let mut tried = 0;
    for (sname, sample) in samples() {
        if sname != public_name(&name) { continue; }
        if let Some(m) = damaged_outer(&sample, class) {
            tried += 1;
            assert!(decode_by_name(sname, &m) != Some(true), "{}::from_bytes accepts the malformed CBOR ({}) {:02x?}", name, class, m);
        }
    }
    s.assume(tried > 0);
}

/// internal enum / helper types are reached through their public wrapper
pub fn public_name(n: &str) -> &str {
    match n {
        "CertificateEnum" => "Certificate", "NativeScriptEnum" => "NativeScript", "PlutusDataEnum" => "PlutusData", "RelayEnum" => "Relay", "DRepEnum" => "DRep", "VoterEnum" => "Voter",
        "ScriptRefEnum" => "ScriptRef", "TransactionMetadatumEnum" => "TransactionMetadatum", "RedeemerTagKind" => "RedeemerTag", "GovernanceActionEnum" => "GovernanceAction",
        "MintAssets" => "Mint", "FixedTransactionBody" | "FixedTxWitnessesSet" => "FixedTransaction", "FixedBlock" | "FixedVersionedBlock" | "FixedTransactionBodies" => "VersionedBlock",
        "RewardAddress" => "RewardAddresses", "Strings" => "MultiHostName", "ExtendedAddr" | "Addr" | "Attributes" | "legacy_address::cbor::util::raw_with_crc32" => "ByronAddress", x => x,
    }
}

/// exact replay: draws = name length, name bytes, payload length (u16), payload bytes
pub fn c02_decode<S: Src>(s: &mut S) {
    let n = s.u8() as usize;
    let name: Vec<u8> = (0..n).map(|_| s.u8()).collect();
    let len = s.u16() as usize;
    let bytes: Vec<u8> = (0..len).map(|_| s.u8()).collect();
    let name = String::from_utf8(name).unwrap();
    let r = decode_by_name(public_name(&name), &bytes);
    s.assume(r.is_some());
}

fn heads() -> Vec<Vec<u8>> {
    let mut h: Vec<Vec<u8>> = vec![vec![0x00], vec![0x01], vec![0x18, 0xff], vec![0x20], vec![0x40], vec![0x41, 0x00], vec![0x60], vec![0x61, 0x61], vec![0x80], vec![0x81], vec![0x82], vec![0x9f],
        vec![0xa0], vec![0xa1], vec![0xbf], vec![0xd9, 0x01, 0x02], vec![0xf4], vec![0xf6], vec![0xff], vec![0x5f], vec![0x1b, 0xff, 0xff, 0xff, 0xff, 0xff, 0xff, 0xff, 0xff], vec![0xd8, 0x18], vec![0xc2]];
    let mut b28 = vec![0x58, 0x1c]; b28.extend([1u8; 28]); h.push(b28);
    let mut b32 = vec![0x58, 0x20]; b32.extend([2u8; 32]); h.push(b32);
    h
}

fn try_decode(name: &str, bytes: &[u8], failures: &mut Vec<String>) {
    let r = std::panic::catch_unwind(|| decode_by_name(name, bytes));
    if r.is_err() && failures.len() < 50 {
        failures.push(format!("{}::from_bytes panics on {}", name, bytes.iter().map(|b| format!("{:02x}", b)).collect::<String>()));
    }
}

pub fn c02_battery<S: Src>(_s: &mut S) {
    let mut failures: Vec<String> = Vec::new();
    let hs = heads();
    let mut corpus: Vec<Vec<u8>> = vec![vec![]];
    for a in &hs {
        corpus.push(a.clone());
        for b in &hs {
            let mut ab = a.clone(); ab.extend(b); corpus.push(ab.clone());
            for c in &hs { let mut abc = ab.clone(); abc.extend(c); corpus.push(abc); }
        }
    }
    // discriminated groups: [array n][uint k] followed by up to two tokens
    for n in [0x81u8, 0x82, 0x83, 0x84, 0x85, 0x9f] {
        for k in 0u8..20 {
            corpus.push(vec![n, k]);
            for a in &hs {
                let mut v = vec![n, k]; v.extend(a); corpus.push(v.clone());
                for b in &hs { let mut w = v.clone(); w.extend(b); corpus.push(w); }
            }
        }
    }
    for name in TYPE_NAMES.iter().chain(["Address"].iter()) {
        let before = failures.len();
        for b in &corpus {
            try_decode(name, b, &mut failures);
            if failures.len() > before { break; }      // one witness per type is enough
        }
    }
    // byte-level mutations of valid samples
    for (name, sample) in samples() {
        if decode_by_name(name, &sample) != Some(true) { failures.push(format!("battery sample for {} does not decode", name)); continue; }
        if failures.iter().any(|f| f.starts_with(&format!("{}::", name))) { continue; }
        let before = failures.len();
        'outer: for i in 0..=sample.len() {
            try_decode(name, &sample[..i], &mut failures);
            if failures.len() > before { break; }
            if i < sample.len() {
                for r in [0x00u8, 0x18, 0x1b, 0x20, 0x40, 0x5f, 0x60, 0x7f, 0x80, 0x9f, 0xa0, 0xbf, 0xc0, 0xd9, 0xf4, 0xf6, 0xfb, 0xff, sample[i].wrapping_add(1), sample[i].wrapping_sub(1)] {
                    let mut m = sample.clone(); m[i] = r;
                    try_decode(name, &m, &mut failures);
                    if failures.len() > before { break 'outer; }
                }
            }
        }
    }
    for f in &failures { eprintln!("C02-BATTERY {}", f); }
    assert!(failures.is_empty(), "{} decoder panics on untrusted bytes; first: {}", failures.len(), failures[0]);
}

fn kh(b: u8) -> Ed25519KeyHash { Ed25519KeyHash::from([b; 28]) }
fn bn(x: u64) -> BigNum { BigNum::from(x) }

fn samples() -> Vec<(&'static str, Vec<u8>)> {
    let mut out: Vec<(&'static str, Vec<u8>)> = Vec::new();
    let cred = Credential::from_keyhash(&kh(1));
    let addr = BaseAddress::new(0, &cred, &Credential::from_keyhash(&kh(2))).to_address();
    let input = TransactionInput::new(&TransactionHash::from([3u8; 32]), 1);
    let mut ma = MultiAsset::new();
    let mut assets = Assets::new();
    assets.insert(&AssetName::new(vec![1, 2, 3]).unwrap(), &bn(5));
    ma.insert(&ScriptHash::from([4u8; 28]), &assets);
    let value = Value::new_with_assets(&bn(1_000_000), &ma);
    let mut output = TransactionOutput::new(&addr, &value);
    out.push(("TransactionOutput", output.to_bytes()));
    let mut legacy = TransactionOutput::new(&addr, &Value::new(&bn(2_000_000)));
    legacy.set_data_hash(&DataHash::from([7u8; 32]));
    out.push(("TransactionOutput", legacy.to_bytes()));
    output.set_plutus_data(&PlutusData::new_integer(&BigInt::from(7u64)));
    output.set_script_ref(&ScriptRef::new_native_script(&NativeScript::new_script_pubkey(&ScriptPubkey::new(&kh(5)))));
    out.push(("TransactionOutput", output.to_bytes()));
    out.push(("Value", value.to_bytes()));
    out.push(("MultiAsset", ma.to_bytes()));
    out.push(("TransactionInput", input.to_bytes()));
    let mut ins = TransactionInputs::new(); ins.add(&input);
    let mut outs = TransactionOutputs::new(); outs.add(&output);
    let mut body = TransactionBody::new_tx_body(&ins, &outs, &bn(170_000));
    let mut certs = Certificates::new();
    certs.add(&Certificate::new_stake_registration(&StakeRegistration::new(&cred)));
    certs.add(&Certificate::new_stake_delegation(&StakeDelegation::new(&cred, &kh(6))));
    body.set_certs(&certs);
    let mut wd = Withdrawals::new();
    wd.insert(&RewardAddress::new(0, &cred), &bn(9));
    body.set_withdrawals(&wd);
    body.set_ttl(&bn(1000));
    let mut mint = Mint::new();
    let mut mas = MintAssets::new();
    mas.insert(&AssetName::new(vec![9]).unwrap(), &Int::new_negative(&bn(3))).ok();
    mint.insert(&ScriptHash::from([4u8; 28]), &mas);
    body.set_mint(&mint);
    let mut req = Ed25519KeyHashes::new(); req.add(&kh(8));
    body.set_required_signers(&req);
    body.set_collateral(&ins);
    body.set_reference_inputs(&ins);
    out.push(("TransactionBody", body.to_bytes()));
    out.push(("Certificates", certs.to_bytes()));
    out.push(("Withdrawals", wd.to_bytes()));
    out.push(("Mint", mint.to_bytes()));
    let mut ws = TransactionWitnessSet::new();
    let mut vk = Vkeywitnesses::new();
    let mut pk = [9u8; 32]; pk[31] = 1;
    vk.add(&Vkeywitness::new(&Vkey::new(&PublicKey::from_bytes(&pk).unwrap()), &Ed25519Signature::from_bytes(vec![7u8; 64]).unwrap()));
    ws.set_vkeys(&vk);
    let mut ns = NativeScripts::new();
    let mut inner = NativeScripts::new();
    inner.add(&NativeScript::new_script_pubkey(&ScriptPubkey::new(&kh(5))));
    inner.add(&NativeScript::new_timelock_start(&TimelockStart::new_timelockstart(&bn(5))));
    ns.add(&NativeScript::new_script_n_of_k(&ScriptNOfK::new(1, &inner)));
    ws.set_native_scripts(&ns);
    let mut pl = PlutusList::new();
    pl.add(&PlutusData::new_bytes(vec![1u8; 70]));
    let mut pm = PlutusMap::new();
    let mut pmv = PlutusMapValues::new(); pmv.add(&PlutusData::new_integer(&BigInt::from_str("-18446744073709551617").unwrap()));
    pm.insert(&PlutusData::new_integer(&BigInt::from(1u64)), &pmv);
    pl.add(&PlutusData::new_map(&pm));
    pl.add(&PlutusData::new_constr_plutus_data(&ConstrPlutusData::new(&bn(130), &PlutusList::new())));
    ws.set_plutus_data(&pl);
    let mut reds = Redeemers::new();
    reds.add(&Redeemer::new(&RedeemerTag::new_spend(), &bn(0), &PlutusData::new_list(&pl), &ExUnits::new(&bn(10), &bn(20))));
    ws.set_redeemers(&reds);
    let mut ps = PlutusScripts::new(); ps.add(&PlutusScript::new_v2(vec![1, 2, 3]));
    ws.set_plutus_scripts(&ps);
    out.push(("TransactionWitnessSet", ws.to_bytes()));
    out.push(("Vkeywitnesses", vk.to_bytes()));
    out.push(("NativeScripts", ns.to_bytes()));
    out.push(("PlutusList", pl.to_bytes()));
    out.push(("PlutusData", PlutusData::new_list(&pl).to_bytes()));
    out.push(("Redeemers", reds.to_bytes()));
    let mut md = GeneralTransactionMetadata::new();
    let mut ml = MetadataList::new(); ml.add(&TransactionMetadatum::new_text("x".to_string()).unwrap()); ml.add(&TransactionMetadatum::new_int(&Int::new_i32(-5)));
    let mut mm = MetadataMap::new(); mm.insert(&TransactionMetadatum::new_bytes(vec![1]).unwrap(), &TransactionMetadatum::new_list(&ml));
    md.insert(&bn(674), &TransactionMetadatum::new_map(&mm));
    let mut aux = AuxiliaryData::new();
    aux.set_metadata(&md);
    aux.set_native_scripts(&ns);
    aux.set_plutus_scripts(&ps);
    out.push(("AuxiliaryData", aux.to_bytes()));
    out.push(("GeneralTransactionMetadata", md.to_bytes()));
    let tx = Transaction::new(&body, &ws, Some(aux.clone()));
    out.push(("Transaction", tx.to_bytes()));
    out.push(("FixedTransaction", tx.to_bytes()));
    out.push(("Address", addr.to_bytes()));
    out.push(("Address", PointerAddress::new(1, &cred, &Pointer::new_pointer(&bn(300), &bn(2), &bn(70000))).to_address().to_bytes()));
    out.push(("Address", ByronAddress::from_base58("Ae2tdPwUPEZ6r6zbg4ibhFrNnyKHg7SYuPSfDpjKxgvwFX9LquRep7gj7FQ").unwrap().to_address().to_bytes()));
    out.push(("TransactionUnspentOutput", TransactionUnspentOutput::new(&input, &output).to_bytes()));
    out.push(("Int", Int::new_negative(&bn(u64::MAX)).to_bytes()));
    out.push(("BigInt", BigInt::from_str("-340282366920938463463374607431768211456").unwrap().to_bytes()));
    // small structs (used by the lenient-decoder probe: the outer container of a valid sample is damaged)
    {
        let anchor = Anchor::new(&URL::new("https://a.b".to_string()).unwrap(), &AnchorDataHash::from([5u8; 32]));
        let gid = GovernanceActionId::new(&TransactionHash::from([9u8; 32]), 3);
        let pv = ProtocolVersion::new(10, 2);
        let drep = DRep::new_key_hash(&kh(4));
        let ra = RewardAddress::new(0, &cred);
        let action = GovernanceAction::new_info_action(&InfoAction::new());
        let sp = ScriptPubkey::new(&kh(1));
        let mut ns = NativeScripts::new();
        ns.add(&NativeScript::new_script_pubkey(&sp));
        out.push(("Anchor", anchor.to_bytes()));
        out.push(("GovernanceActionId", gid.to_bytes()));
        out.push(("Constitution", Constitution::new(&anchor).to_bytes()));
        out.push(("ProtocolVersion", pv.to_bytes()));
        out.push(("VotingProcedure", VotingProcedure::new(VoteKind::Yes).to_bytes()));
        out.push(("VotingProposal", VotingProposal::new(&action, &anchor, &ra, &bn(100)).to_bytes()));
        out.push(("StakeRegistration", StakeRegistration::new(&cred).to_bytes()));
        out.push(("StakeDeregistration", StakeDeregistration::new(&cred).to_bytes()));
        out.push(("StakeDelegation", StakeDelegation::new(&cred, &kh(3)).to_bytes()));
        out.push(("PoolRetirement", PoolRetirement::new(&kh(3), 300).to_bytes()));
        out.push(("VoteDelegation", VoteDelegation::new(&cred, &drep).to_bytes()));
        out.push(("StakeAndVoteDelegation", StakeAndVoteDelegation::new(&cred, &kh(3), &drep).to_bytes()));
        out.push(("DRepRegistration", DRepRegistration::new(&cred, &bn(2_000_000)).to_bytes()));
        out.push(("DRepDeregistration", DRepDeregistration::new(&cred, &bn(2_000_000)).to_bytes()));
        out.push(("DRepUpdate", DRepUpdate::new(&cred).to_bytes()));
        out.push(("CommitteeHotAuth", CommitteeHotAuth::new(&cred, &cred).to_bytes()));
        out.push(("CommitteeColdResign", CommitteeColdResign::new(&cred).to_bytes()));
        out.push(("HardForkInitiationAction", HardForkInitiationAction::new(&pv).to_bytes()));
        out.push(("NoConfidenceAction", NoConfidenceAction::new().to_bytes()));
        out.push(("Credential", cred.to_bytes()));
        out.push(("DRep", drep.to_bytes()));
        out.push(("ExUnits", ExUnits::new(&bn(7), &bn(300)).to_bytes()));
        out.push(("UnitInterval", UnitInterval::new(&bn(1), &bn(3)).to_bytes()));
        out.push(("ScriptPubkey", sp.to_bytes()));
        out.push(("ScriptAll", ScriptAll::new(&ns).to_bytes()));
        out.push(("ScriptNOfK", ScriptNOfK::new(1, &ns).to_bytes()));
        out.push(("TimelockStart", TimelockStart::new_timelockstart(&bn(5000)).to_bytes()));
        out.push(("SingleHostAddr", SingleHostAddr::new(Some(3001), None, None).to_bytes()));
        out.push(("Vkeywitness", Vkeywitness::new(&Vkey::new(&PublicKey::from_bytes(&[9u8; 32]).unwrap()), &Ed25519Signature::from_bytes(vec![7u8; 64]).unwrap()).to_bytes()));
    }
    out
}

// ---------------------------------------------------------------- text entry points (from_hex / from_bech32 / from_json)
macro_rules! hex_types {
    ($($t:ident),* $(,)?) => {
        fn from_hex_all(s: &str, failures: &mut Vec<String>) {
            $( if std::panic::catch_unwind(|| { let _ = <$t>::from_hex(s); }).is_err() && failures.len() < 2000 { failures.push(format!("{}::from_hex panics on {:?}", stringify!($t), s)); } )*
        }
    };
}
hex_types!(Anchor, AssetName, Assets, AuxiliaryData, BigInt, BigNum, Block, BootstrapWitness, Certificate, Certificates, ConstrPlutusData, Credential, DRep, Ed25519KeyHashes, ExUnits,
    FixedTransaction, GeneralTransactionMetadata, GovernanceAction, Int, MultiAsset, NativeScript, PlutusData, PlutusList, PlutusScript, PoolParams, ProtocolParamUpdate, Redeemer, Redeemers,
    Transaction, TransactionBody, TransactionInput, TransactionInputs, TransactionMetadatum, TransactionOutput, TransactionUnspentOutput, TransactionWitnessSet, UnitInterval, Value, Vkeywitness,
    Vkeywitnesses, VotingProcedures, VotingProposal, Withdrawals, Ed25519KeyHash, ScriptHash, TransactionHash, DataHash, Address, PublicKey, PrivateKey, Ed25519Signature, Bip32PublicKey, Bip32PrivateKey);

macro_rules! bech_types {
    ($($t:ident),* $(,)?) => {
        fn from_bech32_all(s: &str, failures: &mut Vec<String>) {
            $( if std::panic::catch_unwind(|| { let _ = <$t>::from_bech32(s); }).is_err() && failures.len() < 2000 { failures.push(format!("{}::from_bech32 panics on {:?}", stringify!($t), s)); } )*
        }
    };
}
bech_types!(Ed25519KeyHash, ScriptHash, TransactionHash, DataHash, AnchorDataHash, GenesisDelegateHash, GenesisHash, AuxiliaryDataHash, PoolMetadataHash, VRFKeyHash, BlockHash, ScriptDataHash,
    VRFVKey, KESVKey, Address, PublicKey, PrivateKey, Ed25519Signature, Bip32PublicKey, Bip32PrivateKey, DRep);

pub fn c02_wrappers<S: Src>(_s: &mut S) {
    use bech32::ToBase32;
    let mut failures: Vec<String> = Vec::new();
    for s in ["", "z", "0", "zz", "0g", "g0", "8", "xyz", "80 ", "0x80", "é", "8080808", "\u{0}\u{0}"] {
        from_hex_all(s, &mut failures);
    }
    // bech32 strings with a valid checksum whose 5-bit payload does not regroup into whole bytes / has non-zero padding
    let mut bechs: Vec<String> = vec!["".into(), "1".into(), "a1".into(), "addr1".into(), "script1qqqq".into()];
    for hrp in ["addr", "script", "pool", "stake", "ed25519_pk", "xprv", "drep", "x"] {
        for n in 0..10usize {
            for fill in [0u8, 1, 31] {
                let data: Vec<bech32::u5> = (0..n).map(|_| bech32::u5::try_from_u8(fill).unwrap()).collect();
                if let Ok(s) = bech32::encode(hrp, data) { bechs.push(s); }
            }
        }
        if let Ok(s) = bech32::encode(hrp, vec![0u8; 28].to_base32()) { bechs.push(s); }
        if let Ok(s) = bech32::encode(hrp, vec![0xffu8; 32].to_base32()) { bechs.push(s); }
        if let Ok(s) = bech32::encode(hrp, vec![0x80u8; 1].to_base32()) { bechs.push(s); }
    }
    for s in &bechs { from_bech32_all(s, &mut failures); }
    for f in &failures { eprintln!("C02-WRAPPERS {}", f); }
    assert!(failures.is_empty(), "{} text entry points panic on malformed input; first: {}", failures.len(), failures[0]);
}

// ---------------------------------------------------------------- text helpers (JSON -> metadata / Plutus data) on non-ASCII strings
pub fn c02_text_battery<S: Src>(_s: &mut S) {
    let mut failures: Vec<String> = Vec::new();
    let pieces = ["", "a", "0", "0x", "0x0", "0xzz", "€", "a€", "ab€", "0x€", "0€", "é", "aé", "日本", "😀", "a😀", "0x😀", "\u{7f}", "\u{80}", "0X12"];
    let mut strings: Vec<String> = pieces.iter().map(|s| s.to_string()).collect();
    for a in pieces.iter() { for b in ["€", "0x", "1"] { strings.push(format!("{}{}", a, b)); } }
    for st in &strings {
        let esc = st.replace('\\', "\\\\").replace('"', "\\\"");
        let docs = [format!("\"{}\"", esc), format!("{{\"{}\": 1}}", esc), format!("[\"{}\"]", esc), format!("{{\"k\": \"{}\"}}", esc),
                    format!("{{\"bytes\": \"{}\"}}", esc), format!("{{\"int\": \"{}\"}}", esc), format!("{{\"map\": [{{\"k\": {{\"bytes\": \"{}\"}}, \"v\": {{\"int\": 1}}}}]}}", esc)];
        for d in &docs {
            for schema in [MetadataJsonSchema::NoConversions, MetadataJsonSchema::BasicConversions, MetadataJsonSchema::DetailedSchema] {
                let dd = d.clone();
                if std::panic::catch_unwind(move || { let _ = encode_json_str_to_metadatum(dd, schema); }).is_err() { failures.push(format!("encode_json_str_to_metadatum panics on {:?} (schema {})", d, schema as u8)); }
            }
            for schema in [PlutusDatumSchema::BasicConversions, PlutusDatumSchema::DetailedSchema] {
                let dd = d.clone();
                if std::panic::catch_unwind(move || { let _ = encode_json_str_to_plutus_datum(&dd, schema); }).is_err() { failures.push(format!("encode_json_str_to_plutus_datum panics on {:?} (schema {})", d, schema as u8)); }
            }
        }
    }
    for f in failures.iter().take(8) { eprintln!("C02-TEXT {}", f); }
    assert!(failures.is_empty(), "{} text helper calls panic on non-ASCII input; first: {}", failures.len(), failures[0]);
}

/// same draws as c02_decode; fails when the bytes are REFUSED (used to replay "a valid encoding does not decode")
pub fn c02_accepts<S: Src>(s: &mut S) {
    let n = s.u8() as usize;
    let name: Vec<u8> = (0..n).map(|_| s.u8()).collect();
    let len = s.u16() as usize;
    let bytes: Vec<u8> = (0..len).map(|_| s.u8()).collect();
    let name = String::from_utf8(name).unwrap();
    let r = decode_by_name(public_name(&name), &bytes);
    s.assume(r.is_some());
    assert!(r == Some(true), "{}::from_bytes refuses {:02x?}", name, bytes);
}

/// a text entry point, selected by name, on the given text (bytes that are not UTF-8 are replaced): it must return, not panic
pub fn c02_text<S: Src>(s: &mut S) {
    let (name, bytes) = draw_name_bytes(s);
    let text = String::from_utf8_lossy(&bytes).to_string();
    match name.as_str() {
        "ByronBase58" => { let _ = ByronAddress::from_base58(&text); let _ = ByronAddress::is_valid(&text); }
        "Bech32Address" => { let _ = Address::from_bech32(&text); }
        "IntFromStr" => { let _ = Int::from_str(&text); }
        "BigNumFromStr" => { let _ = BigNum::from_str(&text); }
        "BigIntFromStr" => { let _ = BigInt::from_str(&text); }
        _ => s.assume(false),
    }
}
