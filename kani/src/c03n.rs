//! C03 native confirmation: the struct-level forms of certificates, governance actions, relays, native scripts and small
//! structs against expected bytes assembled from the Conway CDDL (array length, discriminant, fields in order, `null` for
//! absent optional fields) and the fields' own encodings. Consulted only after a solver counterexample.
use crate::csl::*;
use crate::Src;

fn kh(b: u8) -> Ed25519KeyHash { Ed25519KeyHash::from([b; 28]) }
fn bn(x: u64) -> BigNum { BigNum::from(x) }
fn head(major: u8, n: u64) -> Vec<u8> {
    let m = major << 5;
    if n < 24 { vec![m | n as u8] } else if n < 256 { vec![m | 24, n as u8] } else if n < 65536 { vec![m | 25, (n >> 8) as u8, n as u8] }
    else if n < (1 << 32) { let mut v = vec![m | 26]; v.extend((n as u32).to_be_bytes()); v } else { let mut v = vec![m | 27]; v.extend(n.to_be_bytes()); v }
}
fn uint(n: u64) -> Vec<u8> { head(0, n) }
fn bytes(b: &[u8]) -> Vec<u8> { let mut v = head(2, b.len() as u64); v.extend(b); v }
fn null() -> Vec<u8> { vec![0xf6] }
fn arr(disc: Option<u64>, fields: Vec<Vec<u8>>) -> Vec<u8> {
    let mut v = head(4, fields.len() as u64 + disc.is_some() as u64);
    if let Some(d) = disc { v.extend(uint(d)); }
    for f in fields { v.extend(f); }
    v
}

pub fn c03_struct_forms<S: Src>(_s: &mut S) {
    let mut failures: Vec<String> = Vec::new();
    let mut check = |what: &str, got: Vec<u8>, want: Vec<u8>| { if got != want { failures.push(format!("{}: emitted {:02x?}, the CDDL form is {:02x?}", what, got, want)); } };
    let cred = Credential::from_keyhash(&kh(1));
    let scred = Credential::from_scripthash(&ScriptHash::from([2u8; 28]));
    let pool = kh(3);
    let drep = DRep::new_key_hash(&kh(4));
    let anchor = Anchor::new(&URL::new("https://a.b".to_string()).unwrap(), &AnchorDataHash::from([5u8; 32]));
    let coin = bn(2_000_000);
    let c = |x: &Credential| x.to_bytes();
    let opt_anchor = |a: &Option<Anchor>| a.as_ref().map(|x| x.to_bytes()).unwrap_or(null());
    // certificates
    check("StakeRegistration (legacy)", StakeRegistration::new(&cred).to_bytes(), arr(Some(0), vec![c(&cred)]));
    check("StakeRegistration (with coin)", StakeRegistration::new_with_explicit_deposit(&scred, &coin).to_bytes(), arr(Some(7), vec![c(&scred), uint(2_000_000)]));
    check("StakeDeregistration (legacy)", StakeDeregistration::new(&cred).to_bytes(), arr(Some(1), vec![c(&cred)]));
    check("StakeDeregistration (with coin)", StakeDeregistration::new_with_explicit_refund(&cred, &coin).to_bytes(), arr(Some(8), vec![c(&cred), uint(2_000_000)]));
    check("StakeDelegation", StakeDelegation::new(&cred, &pool).to_bytes(), arr(Some(2), vec![c(&cred), bytes(&pool.to_bytes())]));
    check("PoolRetirement", PoolRetirement::new(&pool, 300).to_bytes(), arr(Some(4), vec![bytes(&pool.to_bytes()), uint(300)]));
    check("GenesisKeyDelegation", GenesisKeyDelegation::new(&GenesisHash::from([6u8; 28]), &GenesisDelegateHash::from([7u8; 28]), &VRFKeyHash::from([8u8; 32])).to_bytes(),
          arr(Some(5), vec![bytes(&[6u8; 28]), bytes(&[7u8; 28]), bytes(&[8u8; 32])]));
    check("VoteDelegation", VoteDelegation::new(&cred, &drep).to_bytes(), arr(Some(9), vec![c(&cred), drep.to_bytes()]));
    check("StakeAndVoteDelegation", StakeAndVoteDelegation::new(&cred, &pool, &drep).to_bytes(), arr(Some(10), vec![c(&cred), bytes(&pool.to_bytes()), drep.to_bytes()]));
    check("StakeRegistrationAndDelegation", StakeRegistrationAndDelegation::new(&cred, &pool, &coin).to_bytes(), arr(Some(11), vec![c(&cred), bytes(&pool.to_bytes()), uint(2_000_000)]));
    check("VoteRegistrationAndDelegation", VoteRegistrationAndDelegation::new(&cred, &drep, &coin).to_bytes(), arr(Some(12), vec![c(&cred), drep.to_bytes(), uint(2_000_000)]));
    check("StakeVoteRegistrationAndDelegation", StakeVoteRegistrationAndDelegation::new(&cred, &pool, &drep, &coin).to_bytes(), arr(Some(13), vec![c(&cred), bytes(&pool.to_bytes()), drep.to_bytes(), uint(2_000_000)]));
    check("CommitteeHotAuth", CommitteeHotAuth::new(&cred, &scred).to_bytes(), arr(Some(14), vec![c(&cred), c(&scred)]));
    check("CommitteeColdResign", CommitteeColdResign::new(&cred).to_bytes(), arr(Some(15), vec![c(&cred), null()]));
    check("CommitteeColdResign (anchor)", CommitteeColdResign::new_with_anchor(&cred, &anchor).to_bytes(), arr(Some(15), vec![c(&cred), anchor.to_bytes()]));
    check("DRepRegistration", DRepRegistration::new(&cred, &coin).to_bytes(), arr(Some(16), vec![c(&cred), uint(2_000_000), null()]));
    check("DRepRegistration (anchor)", DRepRegistration::new_with_anchor(&cred, &coin, &anchor).to_bytes(), arr(Some(16), vec![c(&cred), uint(2_000_000), anchor.to_bytes()]));
    check("DRepDeregistration", DRepDeregistration::new(&cred, &coin).to_bytes(), arr(Some(17), vec![c(&cred), uint(2_000_000)]));
    check("DRepUpdate", DRepUpdate::new(&cred).to_bytes(), arr(Some(18), vec![c(&cred), null()]));
    check("DRepUpdate (anchor)", DRepUpdate::new_with_anchor(&cred, &anchor).to_bytes(), arr(Some(18), vec![c(&cred), anchor.to_bytes()]));
    // governance
    let gid = GovernanceActionId::new(&TransactionHash::from([9u8; 32]), 3);
    check("GovernanceActionId", gid.to_bytes(), arr(None, vec![bytes(&[9u8; 32]), uint(3)]));
    check("Anchor", anchor.to_bytes(), arr(None, vec![{ let mut v = head(3, 11); v.extend(b"https://a.b"); v }, bytes(&[5u8; 32])]));
    let constitution = Constitution::new(&anchor);
    check("Constitution", constitution.to_bytes(), arr(None, vec![anchor.to_bytes(), null()]));
    let constitution2 = Constitution::new_with_script_hash(&anchor, &ScriptHash::from([2u8; 28]));
    check("Constitution (script)", constitution2.to_bytes(), arr(None, vec![anchor.to_bytes(), bytes(&[2u8; 28])]));
    let pv = ProtocolVersion::new(10, 2);
    check("ProtocolVersion", pv.to_bytes(), arr(None, vec![uint(10), uint(2)]));
    check("HardForkInitiationAction", HardForkInitiationAction::new(&pv).to_bytes(), arr(Some(1), vec![null(), pv.to_bytes()]));
    check("HardForkInitiationAction (id)", HardForkInitiationAction::new_with_action_id(&gid, &pv).to_bytes(), arr(Some(1), vec![gid.to_bytes(), pv.to_bytes()]));
    check("NoConfidenceAction", NoConfidenceAction::new().to_bytes(), arr(Some(3), vec![null()]));
    check("NoConfidenceAction (id)", NoConfidenceAction::new_with_action_id(&gid).to_bytes(), arr(Some(3), vec![gid.to_bytes()]));
    check("NewConstitutionAction", NewConstitutionAction::new(&constitution).to_bytes(), arr(Some(5), vec![null(), constitution.to_bytes()]));
    check("InfoAction", GovernanceAction::new_info_action(&InfoAction::new()).to_bytes(), arr(Some(6), vec![]));
    let tw = TreasuryWithdrawals::new();
    check("TreasuryWithdrawalsAction", TreasuryWithdrawalsAction::new(&tw).to_bytes(), arr(Some(2), vec![vec![0xa0], null()]));
    let ppu = ProtocolParamUpdate::new();
    check("ParameterChangeAction", ParameterChangeAction::new(&ppu).to_bytes(), arr(Some(0), vec![null(), ppu.to_bytes(), null()]));
    check("ParameterChangeAction (id, policy)", ParameterChangeAction::new_with_policy_hash_and_action_id(&gid, &ppu, &ScriptHash::from([2u8; 28])).to_bytes(), arr(Some(0), vec![gid.to_bytes(), ppu.to_bytes(), bytes(&[2u8; 28])]));
    let ra = RewardAddress::new(0, &cred);
    let action = GovernanceAction::new_info_action(&InfoAction::new());
    check("VotingProposal", VotingProposal::new(&action, &anchor, &ra, &bn(100)).to_bytes(), arr(None, vec![uint(100), bytes(&ra.to_address().to_bytes()), action.to_bytes(), anchor.to_bytes()]));
    check("VotingProcedure", VotingProcedure::new(VoteKind::Yes).to_bytes(), arr(None, vec![uint(1), null()]));
    check("VotingProcedure (anchor)", VotingProcedure::new_with_anchor(VoteKind::Abstain, &anchor).to_bytes(), arr(None, vec![uint(2), anchor.to_bytes()]));
    // small structs, relays, native scripts
    check("ExUnits", ExUnits::new(&bn(7), &bn(300)).to_bytes(), arr(None, vec![uint(7), uint(300)]));
    check("UnitInterval", UnitInterval::new(&bn(1), &bn(3)).to_bytes(), { let mut v = vec![0xd8, 0x1e]; v.extend(arr(None, vec![uint(1), uint(3)])); v });
    check("TransactionInput", TransactionInput::new(&TransactionHash::from([9u8; 32]), 70000).to_bytes(), arr(None, vec![bytes(&[9u8; 32]), uint(70000)]));
    let ip4 = Ipv4::new(vec![1, 2, 3, 4]).unwrap();
    check("SingleHostAddr", SingleHostAddr::new(Some(3001), Some(ip4.clone()), None).to_bytes(), arr(Some(0), vec![uint(3001), bytes(&[1, 2, 3, 4]), null()]));
    check("SingleHostAddr (empty)", SingleHostAddr::new(None, None, None).to_bytes(), arr(Some(0), vec![null(), null(), null()]));
    let dns = DNSRecordAorAAAA::new("a.b".to_string()).unwrap();
    check("SingleHostName", SingleHostName::new(None, &dns).to_bytes(), arr(Some(1), vec![null(), { let mut v = head(3, 3); v.extend(b"a.b"); v }]));
    let srv = DNSRecordSRV::new("s.b".to_string()).unwrap();
    check("MultiHostName", MultiHostName::new(&srv).to_bytes(), arr(Some(2), vec![{ let mut v = head(3, 3); v.extend(b"s.b"); v }]));
    let sp = ScriptPubkey::new(&kh(1));
    check("ScriptPubkey", sp.to_bytes(), arr(Some(0), vec![bytes(&[1u8; 28])]));
    let mut ns = NativeScripts::new();
    ns.add(&NativeScript::new_script_pubkey(&sp));
    let ns_bytes = arr(None, vec![arr(Some(0), vec![bytes(&[1u8; 28])])]);
    check("ScriptAll", ScriptAll::new(&ns).to_bytes(), arr(Some(1), vec![ns_bytes.clone()]));
    check("ScriptAny", ScriptAny::new(&ns).to_bytes(), arr(Some(2), vec![ns_bytes.clone()]));
    check("ScriptNOfK", ScriptNOfK::new(1, &ns).to_bytes(), arr(Some(3), vec![uint(1), ns_bytes.clone()]));
    check("TimelockStart", TimelockStart::new_timelockstart(&bn(5000)).to_bytes(), arr(Some(4), vec![uint(5000)]));
    check("TimelockExpiry", TimelockExpiry::new_timelockexpiry(&bn(6000)).to_bytes(), arr(Some(5), vec![uint(6000)]));
    // transaction outputs: legacy_transaction_output = [address, amount, ? datum_hash]; post_alonzo = {0: address, 1: value, ? 2: datum_option, ? 3: script_ref}
    let addr = BaseAddress::new(0, &cred, &scred).to_address();
    let val = Value::new(&bn(1_500_000));
    let map = |kv: Vec<(u64, Vec<u8>)>| { let mut v = head(5, kv.len() as u64); for (k, x) in kv { v.extend(uint(k)); v.extend(x); } v };
    let wrapped = |inner: &[u8]| { let mut v = vec![0xd8, 0x18]; v.extend(bytes(inner)); v };
    let out = TransactionOutput::new(&addr, &val);
    check("TransactionOutput (legacy)", out.to_bytes(), arr(None, vec![bytes(&addr.to_bytes()), val.to_bytes()]));
    let mut out_h = out.clone();
    out_h.set_data_hash(&DataHash::from([7u8; 32]));
    check("TransactionOutput (legacy, datum hash)", out_h.to_bytes(), arr(None, vec![bytes(&addr.to_bytes()), val.to_bytes(), bytes(&[7u8; 32])]));
    let datum = PlutusData::new_integer(&BigInt::from_str("7").unwrap());
    let mut out_d = out.clone();
    out_d.set_plutus_data(&datum);
    check("TransactionOutput (inline datum)", out_d.to_bytes(), map(vec![(0, bytes(&addr.to_bytes())), (1, val.to_bytes()), (2, arr(Some(1), vec![wrapped(&datum.to_bytes())]))]));
    let sref = ScriptRef::new_native_script(&NativeScript::new_script_pubkey(&sp));
    let mut out_s = out.clone();
    out_s.set_script_ref(&sref);
    check("TransactionOutput (script ref)", out_s.to_bytes(), map(vec![(0, bytes(&addr.to_bytes())), (1, val.to_bytes()), (3, sref.to_bytes())]));
    let mut out_hs = out_h.clone();
    out_hs.set_script_ref(&sref);
    check("TransactionOutput (datum hash, script ref)", out_hs.to_bytes(),
          map(vec![(0, bytes(&addr.to_bytes())), (1, val.to_bytes()), (2, arr(Some(0), vec![bytes(&[7u8; 32])])), (3, sref.to_bytes())]));
    let mut out_ds = out_d.clone();
    out_ds.set_script_ref(&sref);
    check("TransactionOutput (inline datum, script ref)", out_ds.to_bytes(),
          map(vec![(0, bytes(&addr.to_bytes())), (1, val.to_bytes()), (2, arr(Some(1), vec![wrapped(&datum.to_bytes())])), (3, sref.to_bytes())]));
    check("ScriptRef (native)", sref.to_bytes(), wrapped(&arr(Some(0), vec![NativeScript::new_script_pubkey(&sp).to_bytes()])));
    // protocol parameter update: every settable field alone sits under its CDDL key (distinct values, so an exchange shows)
    {
        let one = |f: &dyn Fn(&mut ProtocolParamUpdate)| { let mut u = ProtocolParamUpdate::new(); f(&mut u); u.to_bytes() };
        let entry = |k: u64, v: Vec<u8>| { let mut b = vec![0xa1]; b.extend(uint(k)); b.extend(v); b };
        let ui = |n: u64| UnitInterval::new(&bn(n), &bn(1000));
        let uib = |n: u64| ui(n).to_bytes();
        let exu = ExUnits::new(&bn(7), &bn(300));
        let prices = ExUnitPrices::new(&ui(19), &ui(20));
        let pvt = PoolVotingThresholds::new(&ui(1), &ui(2), &ui(3), &ui(4), &ui(5));
        let dvt = DRepVotingThresholds::new(&ui(1), &ui(2), &ui(3), &ui(4), &ui(5), &ui(6), &ui(7), &ui(8), &ui(9), &ui(10));
        let cm = Costmdls::new();
        check("ppu minfee_a", one(&|u| u.set_minfee_a(&bn(100))), entry(0, uint(100)));
        check("ppu minfee_b", one(&|u| u.set_minfee_b(&bn(101))), entry(1, uint(101)));
        check("ppu max_block_body_size", one(&|u| u.set_max_block_body_size(102)), entry(2, uint(102)));
        check("ppu max_tx_size", one(&|u| u.set_max_tx_size(103)), entry(3, uint(103)));
        check("ppu max_block_header_size", one(&|u| u.set_max_block_header_size(104)), entry(4, uint(104)));
        check("ppu key_deposit", one(&|u| u.set_key_deposit(&bn(105))), entry(5, uint(105)));
        check("ppu pool_deposit", one(&|u| u.set_pool_deposit(&bn(106))), entry(6, uint(106)));
        check("ppu max_epoch", one(&|u| u.set_max_epoch(107)), entry(7, uint(107)));
        check("ppu n_opt", one(&|u| u.set_n_opt(108)), entry(8, uint(108)));
        check("ppu pool_pledge_influence", one(&|u| u.set_pool_pledge_influence(&ui(109))), entry(9, uib(109)));
        check("ppu expansion_rate", one(&|u| u.set_expansion_rate(&ui(110))), entry(10, uib(110)));
        check("ppu treasury_growth_rate", one(&|u| u.set_treasury_growth_rate(&ui(111))), entry(11, uib(111)));
        check("ppu protocol_version", one(&|u| u.set_protocol_version(&ProtocolVersion::new(10, 2))), entry(14, ProtocolVersion::new(10, 2).to_bytes()));
        check("ppu min_pool_cost", one(&|u| u.set_min_pool_cost(&bn(116))), entry(16, uint(116)));
        check("ppu ada_per_utxo_byte", one(&|u| u.set_ada_per_utxo_byte(&bn(117))), entry(17, uint(117)));
        check("ppu cost_models", one(&|u| u.set_cost_models(&cm)), entry(18, cm.to_bytes()));
        check("ppu execution_costs", one(&|u| u.set_execution_costs(&prices)), entry(19, prices.to_bytes()));
        check("ppu max_tx_ex_units", one(&|u| u.set_max_tx_ex_units(&exu)), entry(20, exu.to_bytes()));
        check("ppu max_block_ex_units", one(&|u| u.set_max_block_ex_units(&exu)), entry(21, exu.to_bytes()));
        check("ppu max_value_size", one(&|u| u.set_max_value_size(122)), entry(22, uint(122)));
        check("ppu collateral_percentage", one(&|u| u.set_collateral_percentage(123)), entry(23, uint(123)));
        check("ppu max_collateral_inputs", one(&|u| u.set_max_collateral_inputs(124)), entry(24, uint(124)));
        check("ppu pool_voting_thresholds", one(&|u| u.set_pool_voting_thresholds(&pvt)), entry(25, pvt.to_bytes()));
        check("ppu drep_voting_thresholds", one(&|u| u.set_drep_voting_thresholds(&dvt)), entry(26, dvt.to_bytes()));
        check("ppu min_committee_size", one(&|u| u.set_min_committee_size(127)), entry(27, uint(127)));
        check("ppu committee_term_limit", one(&|u| u.set_committee_term_limit(128)), entry(28, uint(128)));
        check("ppu governance_action_validity_period", one(&|u| u.set_governance_action_validity_period(129)), entry(29, uint(129)));
        check("ppu governance_action_deposit", one(&|u| u.set_governance_action_deposit(&bn(130))), entry(30, uint(130)));
        check("ppu drep_deposit", one(&|u| u.set_drep_deposit(&bn(131))), entry(31, uint(131)));
        check("ppu drep_inactivity_period", one(&|u| u.set_drep_inactivity_period(132)), entry(32, uint(132)));
        check("ppu ref_script_coins_per_byte", one(&|u| u.set_ref_script_coins_per_byte(&ui(133))), entry(33, uib(133)));
    }
    // text leaves: the CDDL bounds are BYTE lengths (multi-byte characters count with all their bytes)
    {
        let mut expect = |what: &str, accepted: bool, want: bool| { if accepted != want { failures.push(format!("{}: {} although the CDDL byte bound says it must be {}", what, if accepted { "accepted" } else { "refused" }, if want { "accepted" } else { "refused" })); } };
        for (n_ascii, n_e) in [(64usize, 0usize), (65, 0), (0, 32), (0, 33), (62, 1), (63, 1), (1, 32)] {
            let t: String = "a".repeat(n_ascii) + &"é".repeat(n_e);
            expect(&format!("TransactionMetadatum::new_text({} bytes, {} chars)", t.len(), t.chars().count()), TransactionMetadatum::new_text(t.clone()).is_ok(), t.len() <= 64);
        }
        for (n_ascii, n_e) in [(128usize, 0usize), (129, 0), (0, 64), (0, 65), (127, 1)] {
            let t: String = "a".repeat(n_ascii) + &"é".repeat(n_e);
            expect(&format!("URL::new({} bytes, {} chars)", t.len(), t.chars().count()), URL::new(t.clone()).is_ok(), t.len() <= 128);
            expect(&format!("DNSRecordAorAAAA::new({} bytes, {} chars)", t.len(), t.chars().count()), DNSRecordAorAAAA::new(t.clone()).is_ok(), t.len() <= 128);
            expect(&format!("DNSRecordSRV::new({} bytes, {} chars)", t.len(), t.chars().count()), DNSRecordSRV::new(t.clone()).is_ok(), t.len() <= 128);
        }
    }
    assert!(failures.is_empty(), "{} struct-level forms deviate from the CDDL; first: {}", failures.len(), failures[0]);
}
