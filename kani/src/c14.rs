//! C14: amount arithmetic exact or explicit error (E1 part: BigNum/Int kernels and CBOR forms).
use crate::csl::*;
use crate::refcbor::{Buf, head_len};
use crate::{fg, Src};
use core::convert::TryFrom;

pub fn bignum_arith<S: Src>(s: &mut S) {
    let a = s.u64();
    let b = s.u64();
    let (x, y) = (BigNum::from(a), BigNum::from(b));
    // checked_add
    let r = x.checked_add(&y);
    match a.checked_add(b) {
        Some(e) => assert!(u64::from(r.unwrap()) == e),
        None => { assert!(r.is_err()); fg(r); }
    }
    // checked_sub
    let r = x.checked_sub(&y);
    if a >= b { assert!(u64::from(r.unwrap()) == a - b) } else { assert!(r.is_err()); fg(r); }
    // clamped_sub
    let r = u64::from(x.clamped_sub(&y));
    assert!(r == if a >= b { a - b } else { 0 });
    // compare / less_than / max
    let c = x.compare(&y);
    assert!(c == if a < b { -1 } else if a == b { 0 } else { 1 });
    assert!(x.less_than(&y) == (a < b));
    assert!(u64::from(BigNum::max(&x, &y)) == if a < b { b } else { a });
    assert!(x.is_zero() == (a == 0));
    // u32 conversion
    let r = u32::try_from(x);
    if a <= u32::MAX as u64 { assert!(r.unwrap() as u64 == a) } else { assert!(r.is_err()); fg(r); }
    vcover!(a > b && b > u32::MAX as u64, "both branches");
}

pub fn bignum_encode<S: Src>(s: &mut S) {
    let a = s.u64();
    let v = BigNum::from(a).to_bytes();
    let mut r = Buf::new();
    r.uint(a);
    assert!(r.eq_vec(&v));
    vcover!(a >= 0x1_0000_0000, "9-byte class");
    vcover!(a < 24, "1-byte class");
}

/// decode of every byte string of length <= 9: Ok iff it is a complete uint head (any width,
/// also non-minimal), value as RFC 8949 says; trailing bytes are ignored by this decoder family.
pub fn bignum_decode<S: Src>(s: &mut S) {
    let buf: [u8; 9] = s.bytes();
    let len = s.below(10) as usize;
    let r = BigNum::from_bytes(buf[..len].to_vec());
    let exp = crate::refcbor_dec::uint_head(&buf[..len], 0);
    match exp {
        Some((v, _used)) => { assert!(u64::from(r.unwrap()) == v); }
        None => { assert!(r.is_err()); fg(r); }
    }
    vcover!(matches!(exp, Some((v, 9)) if v > 0xffff_ffff), "full width decoded");
    vcover!(exp.is_none() && len > 0, "reject reached");
}

/// Every Int the constructors can build; accessors exact.
pub fn int_ctor_access<S: Src>(s: &mut S) {
    let a = s.u64();
    let p = Int::new(&BigNum::from(a));
    assert!(p.is_positive());
    assert!(u64::from(p.as_positive().unwrap()) == a);
    assert!(p.as_negative().is_none());
    let n = Int::new_negative(&BigNum::from(a));
    if a == 0 {
        assert!(n.is_positive());
    } else {
        assert!(!n.is_positive());
        assert!(n.as_positive().is_none());
        assert!(u64::from(n.as_negative().unwrap()) == a);
    }
    let i = s.u32() as i32;
    let q = Int::new_i32(i);
    assert!(q.as_i32_or_nothing() == Some(i));
    assert!(q.is_positive() == (i >= 0));
    // i32 window of a wide value
    let r = p.as_i32_or_nothing();
    if a <= i32::MAX as u64 { assert!(r == Some(a as i32)) } else { assert!(r.is_none()) }
    let r = n.as_i32_or_nothing();
    if a <= 1u64 << 31 { assert!(r == Some((-(a as i64)) as i32)) } else { assert!(r.is_none()) }
    let r = n.as_i32_or_fail();
    if a <= 1u64 << 31 { assert!(r.unwrap() == (-(a as i64)) as i32) } else { assert!(r.is_err()); fg(r); }
}

/// build an Int with value sign*(mag) over the documented range -2^64..2^64-1.
/// neg=true, arg n encodes -1-n (so -2^64 is n = u64::MAX) and is only obtainable by decoding.
pub fn int_encode<S: Src>(s: &mut S) {
    let a = s.u64();
    let neg = s.bool();
    let x = if neg { Int::new_negative(&BigNum::from(a)) } else { Int::new(&BigNum::from(a)) };
    let v = x.to_bytes();
    let mut r = Buf::new();
    if neg && a > 0 { r.nint_arg(a - 1) } else { r.uint(a) }
    assert!(r.eq_vec(&v));
    vcover!(neg && a > (1u64 << 63), "nint beyond i64");
    vcover!(!neg && a > (1u64 << 63), "uint beyond i64");
}

pub fn int_decode<S: Src>(s: &mut S) {
    let buf: [u8; 9] = s.bytes();
    let len = s.below(10) as usize;
    let r = Int::from_bytes(buf[..len].to_vec());
    let mt = if len > 0 { buf[0] >> 5 } else { 7 };
    let exp = if mt == 0 { crate::refcbor_dec::uint_head(&buf[..len], 0) } else if mt == 1 { crate::refcbor_dec::uint_head(&buf[..len], 1) } else { None };
    match exp {
        Some((v, _)) => {
            let x = r.unwrap();
            if mt == 0 {
                assert!(x.is_positive());
                assert!(u64::from(x.as_positive().unwrap()) == v);
            } else {
                assert!(!x.is_positive());
                assert!(x.as_positive().is_none());
                // value is -1-v; as_negative must be exact or None (v = u64::MAX is -2^64, not a u64)
                let m = x.as_negative();
                if v == u64::MAX { assert!(m.is_none()); } else { assert!(u64::from(m.unwrap()) == v + 1); }
            }
            // range of the property: -2^64 ..= 2^64-1 — re-encoding is exact where it does not hit the
            // known finding
            fg(x);
        }
        None => { assert!(r.is_err()); fg(r); }
    }
    vcover!(matches!(exp, Some((u64::MAX, _))) && mt == 1, "-2^64 decoded");
}

pub fn int_decode_fixed<S: Src>(s: &mut S) {
    let buf: [u8; 9] = s.bytes();
    let r = Int::from_bytes(buf.to_vec());
    let mt = buf[0] >> 5;
    let exp = if mt == 0 { crate::refcbor_dec::uint_head(&buf, 0) } else if mt == 1 { crate::refcbor_dec::uint_head(&buf, 1) } else { None };
    match exp {
        Some((v, _)) => {
            let x = r.unwrap();
            if mt == 0 {
                assert!(x.is_positive());
                assert!(u64::from(x.as_positive().unwrap()) == v);
            } else {
                assert!(!x.is_positive());
                assert!(x.as_positive().is_none());
                let m = x.as_negative();
                if v == u64::MAX { assert!(m.is_none()); } else { assert!(u64::from(m.unwrap()) == v + 1); }
            }
            fg(x);
        }
        None => { assert!(r.is_err()); fg(r); }
    }
}

/// native-only concrete regression (num-bigint is outside Kani's reach): -2^63 as BigInt
pub fn bigint_min_i64_concrete<S: Src>(_s: &mut S) {
    let x = BigInt::from_str("-9223372036854775808").unwrap();
    let v = x.to_bytes();
    assert!(v == vec![0x3b, 0x7f, 0xff, 0xff, 0xff, 0xff, 0xff, 0xff, 0xff]);
    let y = BigInt::from_bytes(v).unwrap();
    assert!(y == x);
}
