#!/usr/bin/env python3
"""./check <Cxx> [--tier quick|thorough] [--only substr] [--replay file]

Decides one property with the solver-based engines:
  E1  Kani/CBMC harnesses of /verif/kani (compiled against /repo's current working tree)
  E2  mir2smt obligations (MIR of /repo's current tree -> SMT-LIB -> z3 + cvc5)
Exit 0: every obligation held within its bound (KNOWN-FINDING lines may be printed).
Exit 1: a violation that reproduces natively (line `VIOLATION property=<id> replay=<path>`).
Exit 2: inconclusive (timeout, out of memory, vacuous harness, non-reproducing counterexample).
"""
import argparse, concurrent.futures as cf, json, os, subprocess, sys, threading, time

HERE = os.path.dirname(os.path.abspath(__file__))
VERIF = os.path.dirname(HERE)
sys.path.insert(0, HERE)
sys.path.insert(0, VERIF)
import kani_run
import specs
sys.modules.setdefault('main', sys.modules[__name__])

BUILD = kani_run.BUILD
EVID = os.environ.get("VERIF_EVIDENCE_DIR", os.path.join(VERIF, "evidence"))
REPLAYS = os.path.join(EVID, "replays")
ENV = kani_run.ENV


def log(*a):
    print(*a, flush=True)


# ---------------------------------------------------------------- native replay binary
_replay_lock = threading.Lock()
_replay_built = {}


def build_replay(profile):
    """(Re)build /verif/kani's `replay` bin against /repo's current tree. profile: dev|release."""
    with _replay_lock:
        if profile in _replay_built:
            return _replay_built[profile]
        tdir = os.path.join(BUILD, "replay")
        lock = open(os.path.join(BUILD, "replay.lock"), "w")
        import fcntl
        fcntl.flock(lock, fcntl.LOCK_EX)
        try:
            cmd = ["cargo", "build", "--offline", "--bin", "replay", "--target-dir", tdir]
            if profile == "release":
                cmd.append("--release")
            p = subprocess.run(cmd, cwd=kani_run.KANI_CRATE, env=ENV, capture_output=True, text=True)
            if p.returncode != 0:
                log("replay build failed:\n" + p.stderr[-3000:])
                _replay_built[profile] = None
                return None
            # copy so that a concurrent rebuild cannot swap the binary under us
            src = os.path.join(tdir, "release" if profile == "release" else "debug", "replay")
            _replay_built[profile] = src
            return src
        finally:
            lock.close()


def native_replay(harness, vals, profile="dev"):
    exe = build_replay(profile)
    if exe is None:
        return {"outcome": "build_failed"}
    arg = ",".join("".join("%02x" % b for b in v) for v in vals) if vals else "-"
    try:
        p = subprocess.run([exe, harness, arg], capture_output=True, text=True, timeout=120)
    except subprocess.TimeoutExpired:
        return {"outcome": "timeout"}
    for line in p.stdout.splitlines():
        line = line.strip()
        if line.startswith("{"):
            try:
                return json.loads(line)
            except Exception:
                pass
    return {"outcome": "crash", "rc": p.returncode, "stderr": p.stderr[-500:]}


# ---------------------------------------------------------------- known findings
def load_known():
    p = os.path.join(VERIF, "known_findings.json")
    if not os.path.exists(p):
        return []
    return json.load(open(p)).get("findings", [])


def known_match(entry, rep):
    m = entry.get("match", {})
    if rep.get("outcome") != "panic":
        return False
    if "location_contains" in m and m["location_contains"] not in rep.get("location", ""):
        return False
    if "message_contains" in m and m["message_contains"] not in rep.get("message", ""):
        return False
    return True


# ---------------------------------------------------------------- E1 scheduling
class MemBudget:
    def __init__(self, total_gb):
        self.total = total_gb
        self.used = 0
        self.cv = threading.Condition()

    def acquire(self, gb):
        gb = min(gb, self.total)
        with self.cv:
            while self.used + gb > self.total:
                self.cv.wait()
            self.used += gb
        return gb

    def release(self, gb):
        with self.cv:
            self.used -= gb
            self.cv.notify_all()


def run_e1(pid, jobs, results, violations, inconclusive, nreplays):
    budget = MemBudget(int(os.environ.get("VERIF_MEM_GB", "44")))
    workers = int(os.environ.get("VERIF_JOBS", str(kani_run.POOL)))

    def one(job):
        gb = budget.acquire(job.get("mem_gb", 6))
        try:
            r = kani_run.verify(job)
        finally:
            budget.release(gb)
        r["bound"] = job.get("bound", "")
        r["encodes"] = job.get("encodes", [])
        log("  [E1] %-44s %-12s %6.1fs  %s" % (job["name"], r["status"], r.get("wall_s", 0), r["reason"][:150]))
        if r["status"] == "fail":
            cands = kani_run.playback_values(job)
            if not cands:
                r["status"] = "inconclusive"
                r["reason"] = "FAILED but concrete playback produced no values: " + r["reason"]
            else:
                # one candidate per failed check and per satisfied cover: the counterexample is the one that panics natively
                r["status"] = "inconclusive"
                outcomes = []
                for vals in cands:
                    dev = native_replay(job["name"], vals, "dev")
                    nreplays[0] += 1
                    outcomes.append(dev.get("outcome"))
                    if dev.get("outcome") == "panic":
                        rel = native_replay(job["name"], vals, "release")
                        nreplays[0] += 1
                        r["playback_values"], r["native_dev"], r["native_release"] = vals, dev, rel
                        r["status"] = "violation"
                        break
                if r["status"] != "violation":
                    # overflow-only findings exist in dev only; try release for completeness of the report
                    r["reason"] = "counterexample does not reproduce natively (%d candidates: %s): %s" % (len(cands), ",".join(map(str, outcomes)), r["reason"])
                log("  [E1] %-44s replayed natively: %s" % (job["name"], ",".join(map(str, outcomes))))
        return r

    with cf.ThreadPoolExecutor(max_workers=workers) as ex:
        # heaviest first so the long poles start early
        for r in ex.map(one, sorted(jobs, key=lambda j: -j.get("timeout_s", 600))):
            results.append(r)
            if r["status"] == "violation":
                violations.append(r)
            elif r["status"] != "pass":
                inconclusive.append(r)


# ---------------------------------------------------------------- main
def main():
    ap = argparse.ArgumentParser()
    ap.add_argument("pid")
    ap.add_argument("--tier", default=os.environ.get("VERIF_TIER", "quick"), choices=["quick", "thorough"])
    ap.add_argument("--only", default=None)
    ap.add_argument("--replay", default=None)
    a = ap.parse_args()
    pid = a.pid
    # z3 is not thread-safe: Python's cyclic garbage collector may run in ANY thread (the Kani job pool, the cvc5 pool) and would
    # then release z3 AST references concurrently with the E2 thread that is using the solver (a rare segfault, seen once in a
    # fresh sandbox).  Automatic collection is switched off; the E2 thread collects explicitly between obligations.
    import gc
    gc.disable()
    seed = int(os.environ.get("VERIF_SEED", "0") or 0)
    if a.replay:
        rp = json.load(open(a.replay))
        if rp.get("engine") == "E2":
            import e2_run
            sys.exit(e2_run.replay(rp))
        for prof in ("dev", "release"):
            print(json.dumps(native_replay(rp["harness"], rp["values"], prof)))
        sys.exit(0)
    if pid not in specs.PROPS:
        log("property %s is not claimed (see MANIFEST.json not_applicable)" % pid)
        sys.exit(2)
    spec = specs.PROPS[pid]
    t0 = time.time()
    os.makedirs(REPLAYS, exist_ok=True)
    results, violations, inconclusive, nreplays = [], [], [], [0]
    e2_results = []

    e1_jobs = [j for j in spec.get("e1", []) if (a.tier == "thorough" or j.get("tier", "quick") == "quick")]
    if a.only:
        e1_jobs = [j for j in e1_jobs if a.only in j["name"]]
    log("== %s tier=%s seed=%d: %d E1 harnesses, E2=%s" % (pid, a.tier, seed, len(e1_jobs), bool(spec.get("e2"))))

    # E2 runs in its own thread next to the Kani jobs
    e2_thread = None
    e2_out = {}
    if spec.get("e2") and not (a.only and not a.only.startswith("e2")):
        import e2_run

        def _e2():
            try:
                e2_out.update(e2_run.run(pid, spec["e2"], a.tier, seed, log))
            except Exception as e:  # an encoder crash is inconclusive, never a pass
                import traceback
                e2_out.update({"results": [], "error": "E2 crashed: %r\n%s" % (e, traceback.format_exc())})
        e2_thread = threading.Thread(target=_e2)
        e2_thread.start()

    if e1_jobs:
        run_e1(pid, e1_jobs, results, violations, inconclusive, nreplays)
    if e2_thread:
        e2_thread.join()
        if e2_out.get("error"):
            log(e2_out["error"])
            inconclusive.append({"name": "E2", "status": "inconclusive", "reason": e2_out["error"][:300]})
        for r in e2_out.get("results", []):
            e2_results.append(r)
            if r["status"] == "violation":
                violations.append(r)
            elif r["status"] != "pass":
                inconclusive.append(r)
        nreplays[0] += e2_out.get("native_runs", 0)

    # known findings: each listed witness is re-executed natively; it is announced only while it
    # still fails, and it never hides a different failure (the harnesses exclude exactly the witness
    # input class by an assume that is named after the finding).
    known_lines = []
    for k in load_known():
        if k.get("property") != pid or k.get("status") != "known":
            continue
        w = k["witness"]
        rep = native_replay(w["harness"], w.get("values", []), w.get("profile", "dev"))
        nreplays[0] += 1
        if known_match(k, rep):
            known_lines.append("KNOWN-FINDING: property=%s %s [%s]" % (pid, k["what"], k["id"]))
        elif rep.get("outcome") == "pass":
            log("  note: known finding %s no longer reproduces (witness passes)" % k["id"])
        else:
            log("  note: known finding %s witness outcome %s" % (k["id"], rep))

    # a violation that is exactly a listed finding (same native panic site) is not reported twice
    real_viol = []
    for v in violations:
        rep = v.get("native_dev", {}) if v.get("native_dev", {}).get("outcome") == "panic" else v.get("native_release", {})
        hit = None
        for k in load_known():
            if k.get("property") == pid and k.get("status") == "known" and known_match(k, rep or {}) and \
                    v.get("name") in k.get("harnesses", [v.get("name")]):
                hit = k
        if hit and v.get("engine") != "E2":
            line = "KNOWN-FINDING: property=%s %s [%s]" % (pid, hit["what"], hit["id"])
            if line not in known_lines:
                known_lines.append(line)
        else:
            real_viol.append(v)
    for l in known_lines:
        log(l)

    for v in real_viol:
        path = os.path.join(REPLAYS, "%s_%s.json" % (pid, v["name"]))
        with open(path, "w") as f:
            json.dump({"property": pid, "engine": v.get("engine", "E1"), "harness": v["name"], "values": v.get("playback_values"),
                       "failed_checks": v.get("failed_checks"), "native_dev": v.get("native_dev"),
                       "native_release": v.get("native_release"), "model": v.get("model"), "reason": v.get("reason")}, f, indent=1)
        log("VIOLATION property=%s replay=%s" % (pid, path))
        log("   %s: %s" % (v["name"], v.get("reason", "")[:300]))

    # ---------------------------------------------------------------- evidence
    allr = results + e2_results
    passed = [r for r in allr if r["status"] == "pass"]
    states = sum(r.get("stats", {}).get("symex_steps", 0) for r in results) + sum(r.get("stats", {}).get("smt_assertions", 0) for r in e2_results)
    trans = sum(r.get("stats", {}).get("vccs_remaining", 0) for r in results) + sum(r.get("stats", {}).get("queries", 0) for r in e2_results)
    samples = []
    for r in allr:
        samples.append({"obligation": r["name"], "engine": r.get("engine", "E1"), "status": r["status"], "bound": r.get("bound", ""),
                        "functions_encoded": r.get("encodes", []), "stats": r.get("stats", {}),
                        "covers": [c["desc"] + "=" + c["status"] for c in r.get("covers", [])],
                        "wall_s": r.get("wall_s"), "reason": r.get("reason", "")[:300]})
    ev = {
        "property_id": pid, "tier": a.tier, "seed": seed, "level": "model_checking",
        "coverage": {
            "states": max(states, 1 if passed else 0), "transitions": max(trans, 1 if passed else 0),
            "traces_validated_against_impl": nreplays[0],
            "samples": samples or [{"note": "nothing ran"}],
            "obligations": len(allr), "discharged": len(passed),
            "evaluations": len(allr), "distinct_nontrivial": len(passed),
            "rule": "one evaluation = one solver-decided obligation (a Kani/CBMC harness over symbolic inputs, or a mir2smt query set); "
                    "non-trivial = verdict SUCCESSFUL with every vacuity witness (kani::cover / sat pre-check) satisfied",
            "states_meaning": "CBMC symex steps + SMT assertions summed over obligations",
            "transitions_meaning": "verification conditions remaining after simplification + SMT queries discharged",
            "solver_time_s": round(sum(r.get("stats", {}).get("solver_s", 0) for r in allr), 2),
            "known_findings_announced": known_lines,
            "inconclusive": [r["name"] for r in inconclusive],
            "violations": [r["name"] for r in real_viol],
            "exhaustive": False,
            "bounds_statement": spec.get("bounds", ""),
        },
        "assumptions": spec.get("assumptions", []) + specs.COMMON_ASSUMPTIONS,
        "wall_s": round(time.time() - t0, 1),
        "violations": len(real_viol),
    }
    os.makedirs(EVID, exist_ok=True)
    with open(os.path.join(EVID, pid + ".json"), "w") as f:
        json.dump(ev, f, indent=1)
    log("== %s: %d/%d obligations held, %d inconclusive, %d violations, %.0fs" % (pid, len(passed), len(allr), len(inconclusive), len(real_viol), time.time() - t0))
    def done(code):
        # leave without interpreter teardown: releasing millions of z3 AST references one by one at exit can take tens of minutes
        sys.stdout.flush(); sys.stderr.flush()
        os._exit(code)
    if real_viol:
        done(1)
    if inconclusive or not allr:
        for r in inconclusive:
            log("   inconclusive: %s: %s" % (r["name"], r.get("reason", "")[:300]))
        done(2)
    done(0)


if __name__ == "__main__":
    main()
