#!/bin/bash
# rev_check.sh <git-rev-of-/repo> <property> [extra check args]: run a property's check against a scratch worktree of an
# older revision of /repo (development aid: shows that a check reports the defect a later "fix:" commit repaired)
REV=$1; PID=$2; shift 2
WT=/tmp/rc_$PID
git -C /repo worktree remove --force $WT 2>/dev/null
git -C /repo worktree add -q --detach $WT $REV && cp /repo/rust/Cargo.lock $WT/rust/Cargo.lock
VERIF_REPO=$WT VERIF_BUILD_DIR=/tmp/vbr_$PID VERIF_EVIDENCE_DIR=/tmp/vbr_$PID/evidence VERIF_KANI_POOL=${VERIF_KANI_POOL:-3} /verif/check $PID "$@"
RC=$?
git -C /repo worktree remove --force $WT
rm -rf /tmp/vbr_$PID
echo "rev_check $REV $PID exit=$RC"
exit $RC
