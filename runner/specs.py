"""Per-property obligations. E1 job keys: name (harness in /verif/kani), tier, mem_gb, timeout_s,
unwind_fn ({function-name-substring: per-loop bound}), bound (text), encodes (functions)."""

COMMON_ASSUMPTIONS = [
    "Kani 0.68 MIR->goto translation and std models (allocation never fails), CBMC 6.11 + CaDiCaL",
    "Kani models the dev profile (overflow checks on); counterexamples are replayed natively in dev and release",
    "alloc::fmt::format is stubbed to return an empty String in every harness not marked nostub (error text is not part of any property)",
    "unwinding assertions are ON: a loop bound that is too small is reported as inconclusive, never truncated silently",
]


def J(name, tier="quick", mem_gb=6, timeout_s=600, bound="", encodes=(), unwind_fn=None):
    return dict(name=name, tier=tier, mem_gb=mem_gb, timeout_s=timeout_s, bound=bound, encodes=list(encodes), unwind_fn=unwind_fn)


PROPS = {}

PROPS["C14"] = dict(
    bounds="BigNum/Int: all u64 / all of -2^64..2^64-1; CBOR decode: every byte string of <= 9 bytes; mint builder: one add / set step from policy absent / native / Plutus with any stored and offered amount; "
           "decimal strings: every i128 / u64 std's parser can return",
    assumptions=["str::parse::<i128 / u64> is a stub returning an arbitrary number of its type or an error (std's decimal parser and formatter are trusted); MintBuilder::validate_mint_witness and script_hash are stubs"],
    e1=[
        J("c14_bignum_arith", bound="a,b: all u64", encodes=["BigNum::checked_add", "checked_sub", "clamped_sub", "compare", "less_than", "max", "TryFrom<BigNum> for u32"]),
        J("c14_bignum_encode", bound="all u64", encodes=["BigNum::to_bytes"]),
        J("c14_int_ctor_access", bound="all u64 magnitudes, all i32", encodes=["Int::new", "new_negative", "new_i32", "as_positive", "as_negative", "as_i32_or_nothing", "as_i32_or_fail"]),
        J("c14_int_encode", bound="all of -(2^64-1)..2^64-1 except -2^63 (known finding)", encodes=["Int::to_bytes"]),
        J("c14_int_decode_fixed", bound="every 9-byte buffer", encodes=["Int::from_bytes", "read_nint", "Int::as_negative"]),
    ],
)

HL = {"refcbor": 70, "common": 70, "c11::": 70, "memcmp": 70}  # harness-side byte loops (reference encoder, compare)
PROPS["C11"] = dict(
    bounds="Shelley kinds: network 0..15, both credential kinds, all hash bytes, pointer triples over all u64; "
           "strict parser: every non-Byron byte string of <= 34 bytes and base-address candidates of 55..60 bytes "
           "(the embedded-parser harness does not finish within 30 min even for 6 carried bytes and is not part of the claim)",
    assumptions=["Byron headers (0b1000) are excluded from the Shelley harnesses; Bech32/Base58 text forms are outside the bound",
                 "Byron: only the attribute map (derivation payload, protocol magic over all u32) is decided, at token level (E2); root hash, crc32 wrapper and Base58 are not"],
    e2=["c11"],
    e1=[
        J("c11_enc_base", bound="kind base; net<16; both credential kinds; all hash bytes", encodes=["Address::to_bytes", "kind", "network_id", "payment_cred"], unwind_fn=HL, mem_gb=10),
        J("c11_rt_base", tier="thorough", bound="kind base; net<16; both credential kinds; all hash bytes", encodes=["Address::from_bytes", "BaseAddress::from_address"], unwind_fn=HL, mem_gb=10, timeout_s=900),
        J("c11_enc_enterprise", bound="kind enterprise; net<16; both credential kinds; all hash bytes", encodes=["Address::to_bytes", "kind", "network_id", "payment_cred"], unwind_fn=HL, mem_gb=10),
        J("c11_rt_enterprise", bound="kind enterprise; net<16; both credential kinds; all hash bytes", encodes=["Address::from_bytes", "EnterpriseAddress::from_address"], unwind_fn=HL, mem_gb=10, timeout_s=900),
        J("c11_enc_reward", bound="kind reward; net<16; both credential kinds; all hash bytes", encodes=["Address::to_bytes", "kind", "network_id", "payment_cred"], unwind_fn=HL, mem_gb=10),
        J("c11_rt_reward", tier="thorough", bound="kind reward; net<16; both credential kinds; all hash bytes", encodes=["Address::from_bytes", "RewardAddress::from_address"], unwind_fn=HL, mem_gb=10, timeout_s=900),
        J("c11_pointer_enc_slot", tier="thorough", bound="slot natural: all u64, the other two fixed", encodes=["variable_nat_encode", "Address::to_bytes(pointer)"], unwind_fn=HL, mem_gb=12, timeout_s=1200),
        J("c11_pointer_enc_tx", tier="thorough", bound="tx natural: all u64, the other two fixed", encodes=["variable_nat_encode", "Address::to_bytes(pointer)"], unwind_fn=HL, mem_gb=12, timeout_s=1200),
        J("c11_pointer_enc_cert", bound="cert natural: all u64, the other two fixed", encodes=["variable_nat_encode", "Address::to_bytes(pointer)"], unwind_fn=HL, mem_gb=12, timeout_s=1200),
        J("c11_ref_varnat_inverse", bound="all u64 (harness-side lemma: reference decoder inverts reference encoder)", encodes=[], unwind_fn=HL),
        J("c11_strict_parse_ptr_long", tier="thorough", bound="pointer header + 28-byte hash + every 12-byte tail", encodes=["variable_nat_decode", "Address::decode_pointer", "Address::from_bytes_internal_impl(strict)"], unwind_fn=HL, mem_gb=14, timeout_s=1500),
        J("c11_strict_parse_short", tier="thorough", bound="every byte string of length 0..34, header != Byron", encodes=["Address::from_bytes_internal_impl(strict)"], unwind_fn=HL, timeout_s=1800, mem_gb=16),
        J("c11_strict_parse_base", bound="length 55..60, header nibble 0..3", encodes=["Address::from_bytes_internal_impl(strict)"], unwind_fn=HL, timeout_s=1800, mem_gb=16),
    ],
)

PROPS["C15"] = dict(
    bounds="linear fee, ex-unit cost: every argument over its full machine range (price denominators > 0); "
           "reference-script fee: tier count n concrete 0..8 (quick) / 0..48 (thorough), remainder and price symbolic",
    assumptions=["num-bigint's BigInt is modelled as a mathematical integer (add, sub, mul, pow, div_floor, div_ceil, sign, to_u64_digits)",
                 "price denominators are positive (CDDL positive_int); a zero denominator is outside the ledger's definition",
                 "error payloads (JsError text) are opaque"],
    e1=[],
    e2=["c15"],
)

PROPS["C20"] = dict(
    bounds="certificate sequences of length 1-3 over all 19 kinds (explicit coin present/absent), 0-2 withdrawals, 0-1 proposal; "
           "all coins and the two deposit parameters over all u64 (sums at the 64-bit boundary included)",
    assumptions=["containers are abstract sequences: iteration yields each stored element once in order (C16 covers the containers themselves)",
                 "credentials, hashes, pool parameters are lazily initialised symbolic objects; the ledger table is written in mir2smt/obl/c20.py and again, independently, in kani/src/e2n.rs for native confirmation"],
    e1=[],
    e2=["c20"],
)

PROPS["C07"] = dict(
    bounds="min-ADA: coin and coins_per_byte over all u64, size of the rest of the output K over 1..2^32 (all shapes at once through the size lemma); "
           "admission and size gates: every size, limit and amount over its full range",
    assumptions=["size lemma len(output.to_bytes()) = K + head(coin) with K independent of the coin: established by the C03 E1 harnesses (to_bytes == reference bytes for every coin)",
                 "change outputs: c07_e2_change_outputs_pass_admission decides on C05's exploration of the balancing step (1 round, stubs as listed under C05) that every output the step creates went through add_output; the collateral return through the collateral setters (C19's obligations, run by this check as well: "
                 "a setter accepts only a return that meets the minimum computed by min_ada_for_output from the stored output itself)"],
    e1=[],
    e2=["c07", "c19"],
)
PROPS["C05"] = dict(
    bounds="arbitrary builder state (lazy initialisation) for the gate and for the balancing step; accounting getters over 1-3 stored items; every amount over all u64; one arbitrary asset (pointwise abstraction); "
           "balancing step: one call, fee request Unspecified / NotLess / Exactly, prefer_pure_change and do_not_burn_extra_change both ways, 0..2 packed bundles per round, 1 round (quick) / 2 rounds (thorough), "
           "change datum / script reference absent (quick) or arbitrary (thorough)",
    assumptions=["Value operations act pointwise as stated in mir2smt/valuemodel.py (summaries established by the C14 obligations on shaped bundles)",
                 "balancing step: without_zero_assets (dropping entries with quantity 0) is the identity in the pointwise abstraction - a quantity of 0 and an absent entry are the same point; what it does to concrete bundles is C03's obligation; the raw size-dependent min_fee(&builder), MinOutputAdaCalculator, pack_nfts_for_change and add_output are stubs with arbitrary results whose failure is explored at the first call of each kind per path; "
                 "get_input_shortage returns an arbitrary verdict; TransactionBuilder::min_fee / fee_for_output enter through contracts proved from their MIR by c05_e2_fee_alignment_*; one output is already present in the builder; "
                 "panicking paths are outside the property (it speaks about reported successes) and are only counted in the log",
                 "coin selection (add_inputs_from) is C08's claim; callees named in each obligation are uninterpreted pure functions of the (unmodified) builder"],
    e1=[],
    e2=["c05"],
)

PROPS["C06"] = dict(
    bounds="arbitrary builder state (lazy initialisation); every fee, size and amount over its full machine range; every address and credential kind for input recording; 8 reference-script sources",
    assumptions=["fee functions themselves are C15's obligations; signer counting and the sized (fake) transaction are decided by C18's obligations, which this check runs as well; callees named in each obligation are stubs with arbitrary results",
                 "claim is for transactions released through build_tx; the iterative fee/change fixed point in add_change_if_needed is not executed (a wrong estimate is caught by validate_fee)"],
    e1=[],
    e2=["c06", "c05", "c18"],        # the minimum fee rests on the signer count and the sized transaction: C18's obligations are part of this check
)
PROPS["C05"]["e2"] = ["c05", "c20", "c06"]

PROPS["C19"] = dict(
    bounds="collateral inputs' total and return output: lovelace all u64, one arbitrary asset all u64, other assets abstract; requested total, fee, percentage: all u64; "
           "previously stored fields arbitrary (two-step histories); 2 collateral inputs for the percentage helper",
    assumptions=["Value::checked_sub / MultiAsset::sub enter through the pointwise summaries of valuemodel.py (clamping behaviour as implemented), established separately on small bundles by C14's E1 harnesses",
                 "min_ada_for_output and TxInputsBuilder::total_value return arbitrary results; the balancing call inside the percentage helper is an arbitrary Ok/Err"],
    e1=[],
    e2=["c19"],
)

PROPS["C18"] = dict(
    bounds="membership of an arbitrary key in each source: arbitrary; all 19 certificate kinds x key/script credential (pool registration and genesis delegation excluded from the table obligation); "
           "sized transaction with 0-3 counted keys and 0-2 Byron addresses",
    assumptions=["key-hash sets are tracked pointwise (membership of one arbitrary key); that the container de-duplicates is C16's obligation",
                 "predicted size vs signed size is not executed end to end (full_size()/build_tx() exceed reach): mock witness sizes are C06/C13 obligations, script availability is covered only through get_combined_* being passed on unchanged",
                 "sub-builder signer getters are arbitrary sets in the union obligation"],
    e1=[],
    e2=["c18"],
)

HL3 = {"refcbor": 260, "common": 260, "c03::": 260, "memcmp": 260}
_c03 = [("tx_input", "hash: all bytes; index: all u32", ["TransactionInput::to_bytes"]),
        ("value_ada", "coin: all u64; empty bundle == absent", ["Value::to_bytes"]),
        ("value_1x2", "1 policy x 2 names (lengths 1,2; both insertion orders); coin and amounts all u64", ["Value::to_bytes", "MultiAsset/Assets serialize", "AssetName::cmp"]),
        ("value_2x1", "2 policies with symbolic first byte, both orders; amounts all u64", ["Value::to_bytes", "MultiAsset serialize"]),
        ("output_legacy", "enterprise address, coin all u64 (also the C07 size lemma)", ["TransactionOutput::to_bytes"]),
        ("output_legacy_datahash", "enterprise address + data hash, coin all u64", ["TransactionOutput::to_bytes"]),
        ("output_inline_datum", "post-Alonzo map with 3-byte bytes datum", ["TransactionOutput::to_bytes", "DataOption serialize"]),
        ("output_script_ref_and_datahash", "post-Alonzo map with data hash and native-script reference", ["TransactionOutput::to_bytes", "ScriptRef serialize"]),
        ("small_structs", "UnitInterval, ExUnits, ExUnitPrices, ProtocolVersion: all field values", ["UnitInterval/ExUnits/ExUnitPrices/ProtocolVersion::to_bytes"]),
        ("cert_stake_reg_dereg", "certificate indices 0,1,7,8; both credential kinds; coin all u64", ["Certificate::to_bytes"]),
        ("cert_delegations", "certificate indices 2,4,11", ["Certificate::to_bytes"]),
        ("cert_votes", "certificate indices 9,10,12,13 x 4 DRep kinds", ["Certificate::to_bytes", "DRep serialize"]),
        ("cert_governance", "certificate indices 14-18 (anchor absent)", ["Certificate::to_bytes"]),
        ("withdrawals_and_mint", "2 withdrawals; mint of one asset with amount over -(2^64-1)..2^64-1", ["Withdrawals::to_bytes", "Mint::to_bytes"]),
        ("redeemer_enc", "6 tags; index, memory, steps all u64", ["Redeemer::to_bytes"]),
        ("size_bounds", "constructor input length 0..34", ["AssetName::new", "Ipv4::new", "Ipv6::new"])]
PROPS["C03"] = dict(
    bounds="integers (E2): BigInt / Plutus-data integer form and head width for every mathematical integer; struct forms (E2): every serializer path of 46 certificate / governance-action / relay / native-script / witness / small struct types against a table written from the Conway CDDL (array length, discriminant, field order, null for absent optional fields), nested values opaque; shapes (E1): transaction input, ADA-only value (and empty bundle == absent), legacy enterprise output, certificate forms 0,1,2,4,7,8,11 (thorough: 14-18) with both credential kinds; every scalar leaf over its full range, hash bytes symbolic",
    assumptions=["the reference encoder (kani/src/refcbor.rs) is written from RFC 8949 and the Conway CDDL and shares no code with CSL or cbor_event",
                 "map keys (E2): transaction body (21 keys), witness set (8 keys) and protocol parameter update (34 keys) against key tables written from the CDDL, for the presence combinations listed in each obligation; transaction output: the two CDDL forms for the six datum x script-reference combinations",
                 "byte-level shapes outside the E1 list (metadata, Plutus data trees, blocks) and builder outputs as a whole are outside the bound"],
    # harnesses that do not finish under the memory/time caps on this machine (value_1x2, value_2x1, output_legacy_datahash, output_inline_datum,
    # output_script_ref_and_datahash, small_structs, cert_votes, withdrawals_and_mint, redeemer_enc, size_bounds: CBMC out of memory at 10 GB or > 20 min)
    # are kept in kani/src/c03.rs but are not part of the claim
    e2=["c03", "c03_keys"],
    e1=[J("c03_" + n, bound=b, encodes=e, unwind_fn=HL3, mem_gb=10, timeout_s=1500, tier=("quick" if n in ("tx_input", "value_ada", "output_legacy", "cert_stake_reg_dereg", "cert_delegations") else "thorough"))
        for n, b, e in _c03 if n in ("tx_input", "value_ada", "output_legacy", "cert_stake_reg_dereg", "cert_delegations", "cert_governance")],
)

PROPS["C14"]["e2"] = ["c14"]
PROPS["C14"]["bounds"] += ("; BigInt narrowing (as_u64, as_int): every mathematical integer; Value comparison / checked_add / checked_sub / clamped_sub: every pair of 7 bundle shapes "
                           "(absent, empty, policy without assets, 1-2 assets, two policies) over 2 policies x 2 asset names, coins and quantities over all u64 including 0")
PROPS["C14"]["assumptions"] = ["Value operations are decided component-wise on concrete bundle shapes; commutativity / associativity of addition and 'subtraction undoes addition' follow from component-wise exactness "
                               "and are not separate obligations; bundles with more than 2 policies / 2 names per policy are outside the bound",
                               "decimal strings: str::parse::<i128 / u64> is a stub returning an arbitrary number of its type or an error and to_str is format! (std's decimal parser / formatter are trusted); "
                               "what is decided is the crate's own range check around the parser; MintBuilder::validate_mint_witness and script_hash are stubs in the mint-builder obligation"]

PROPS["C09"] = dict(
    bounds="each of the seven script sources present/absent with one arbitrary Plutus witness; no / 1 / 2 extra witness datums (thorough: also an empty list)",
    assumptions=["PlutusWitnesses::collect and hash_script_data are uninterpreted: what is decided is that the hash side and the emitted witness set receive the same witnesses, redeemers, datum list and language set",
                 "the byte format of the hash preimage (hash_script_data, language_views_encoding, PlutusList::to_set_bytes) and blake2b are outside this obligation",
                 "auxiliary-data hash: AuxiliaryData::to_bytes and blake2b256 are uninterpreted functions of the value / the buffer: decided is that the body carries blake2b256(to_bytes(x)) for exactly the auxiliary data x the released transaction attaches (present / absent alike); that Transaction serializes x with the same bytes as x.to_bytes() is the generic Serialize/to_bytes macro (C01)"],
    e1=[],
    e2=["c09"],
)
PROPS["C10"] = dict(
    bounds="1-3 items per purpose (4 in the thorough tier) in the container's emitted order, every Plutus / native-script / key pattern; items themselves arbitrary (lazy)",
    assumptions=["containers are abstract sequences in their iteration order; for mint and inputs (BTreeMap) and votes/proposals that order is the sorted key order the body is emitted in, for certificates the insertion order",
                 "withdrawals: the ledger's key order of reward accounts (network id, script credentials before key credentials, credential hash) is the specification; the account comparison is an uninterpreted strict total order "
                 "in the rank / emission obligations and is itself checked against that specification with byte-string comparison of hashes uninterpreted"],
    e1=[],
    e2=["c10"],
)

PROPS["C04"] = dict(
    bounds="FixedTransaction: one step of every public mutator from an arbitrary state satisfying the representation invariant; constructor decoders over token streams; Plutus datum: item at stream position 0..2 spanning 1..3 tokens, with and without trailing input",
    assumptions=["TransactionBody::from_bytes, blake2b256 and to_vec are uninterpreted functions; the Plutus datum byte-level harness (kani/src/c04.rs) exhausts CBMC memory at 24 GB for 5 input bytes and is not part of the claim"],
    e1=[],
    e2=["c04"],
)
PROPS["C16"] = dict(
    bounds="set containers (Ed25519KeyHashes, Credentials, TransactionInputs, Certificates, VotingProposals, Vkeywitnesses, BootstrapWitnesses): one inductive step from an arbitrary valid state "
           "with 0..2 stored elements; add / add_move with one arbitrary element, extend / extend_move / from_vec / decoding with 0..2 (thorough: 3) offered elements and arbitrary coincidences among them and with "
           "the stored ones; re-encoding of every decoded collection; builder part: as C09 (witness datums collected and emitted once through the de-duplicating setter)",
    assumptions=["std's HashSet / BTreeSet is a set under Eq of the element (insert reports absence, Rc is transparent); element equality is identity equality in the solver, both outcomes explored",
                 "the representation invariant (vector and index hold the same pairwise distinct elements) is the inductive hypothesis; it is re-established by every operation, so histories of any length are covered "
                 "as long as every insertion path is among the operations executed (listed per container in the evidence; a container whose fields change makes its obligation inconclusive)",
                 "not decided: JSON arrival (serde), canonical order of asset maps and of the mint field, byte-identical repeated builds, reference-input container of the builder, typed witness-set setters other than datums"],
    e1=[],
    e2=["c16", "c09"],
)

PROPS["C01"] = dict(
    bounds="struct level: TransactionBody (21 keys) and TransactionWitnessSet (8 keys): presence combinations none / singles / pairs / all, optional collections present-but-empty or non-empty, scalar fields all u64, nested values opaque items; "
           "leaf level: the C03 and C14 E1 harnesses (encode == reference bytes, decode of the numeric leaves)",
    assumptions=["cbor_event's Serializer/Deserializer are modelled at token level (mir2smt/cbormodel.py); a nested value of another type is one opaque well-formed item carrying the value's identity",
                 "generic round trip: collections reached through a lazily initialised value are unfolded to 0 / 1 / 2 lazily initialised elements (a fork per size); map keys and the vectors of the set-typed collections hold pairwise "
                 "distinct elements (their representation invariant, C16); an opaque item carries the value it was written from, so the decoder hands back that very value",
                 "byte-level encodings of leaves, collections beyond 2 elements, PlutusMap, recursive enum trees (Plutus data, metadatum) are outside this obligation"],
    e1=[],
    e2=["c01"],
)

PROPS["C13"] = dict(
    bounds="size model kernels and the output-cost fixed point: every argument over its full range (output size 10..2^32); pure-ADA top-up step: arbitrary proposal state, every measured size and limit symbolic; batch loop: 0..3 proposals x 0..2 extensions; create_tx: 0..3 recorded indices, 0..2 outputs",
    assumptions=["spend-everything clause: decided are the batch loop (Ok only when nothing remains in the final grouping state; has_assets / has_ada are uninterpreted predicates of a state version that "
                 "advances at every try_append_next_utxos call, the only &mut callee) and create_tx (inputs = the supplied UTxOs at the recorded indices, each once); NOT decided: that the extension step moves "
                 "exactly the UTxOs it adds to a proposal out of the free sets (hash-container code), per-transaction balance, fee for the real size - exercised natively by the send-all batteries only",
                 "TxOutputProposal::create_output, the extension / closing steps and TransactionInputs::from_vec (C16's claim) are stubs with arbitrary outcomes in those two obligations"],
    e1=[],
    e2=["c13"],
)

PROPS["C02"] = dict(
    bounds="token level: every Deserialize impl in the crate x a type-agnostic adversarial corpus (arrays <= 4-5 elements, maps <= 2 entries, definite / indefinite / tagged, discriminants 0..19, map keys 0..25, "
           "every prefix, items cut short) plus mutants of the type's own valid encodings; entry wrappers: every from_hex / from_bytes / from_json / from_bech32 / from_base58 body in the MIR; "
           "byte level (E1): every 9-byte buffer for Int, every byte string of 26..34 bytes for the raw hash types, Shelley address byte strings per the C11 harness bounds",
    assumptions=["nested decoders are opaque and adversarial at token level (they fail, or accept exactly one complete item); each is an entry of its own, so the claim composes by induction on nesting depth",
                 "cbor_event's Deserializer primitives are modelled at token granularity (a primitive either reads the token of its kind or fails; an item may be 'cut short': its head announces a kind and reading it fails); "
                 "their own byte-level totality is not decided",
                 "byte-level leaf parsers reached from a decoder (Address::from_bytes_impl*, public keys, signatures, nested from_bytes of captured bytes, read_bounded_bytes, blake2b) return Ok or Err and do not panic; "
                 "for addresses, Int and the hash types that is what the E1 harnesses decide, for keys / signatures / Byron attributes it is assumed",
                 "external crates (hex, bech32, base58, serde_json, num-bigint) return normally: uninterpreted functions whose Result / Option forks both ways",
                 "termination: every loop of a decoder consumes one token per iteration over a finite stream (the engine's loop bound of 40 is never hit on the corpus; hitting it is reported as truncated); "
                 "recursion depth (deeply nested Plutus data / native scripts / metadata) is outside the claim",
                 "re-serialization of accepted values ('serializing that value again produces well-formed CBOR') is C01's obligation, not repeated here; JSON documents (from_json bodies beyond the serde_json call) are outside the claim"],
    e1=[
        J("c02_hash_from_bytes", bound="content symbolic, every length 26..34 and 0; Ed25519KeyHash (28) and TransactionHash (32) instantiations of impl_hash_type!", encodes=["impl_hash_type!::from_bytes", "to_bytes"], mem_gb=10, timeout_s=900),
        J("c14_int_decode_fixed", bound="every 9-byte buffer", encodes=["Int::from_bytes", "read_nint"]),
        J("c11_strict_parse_base", tier="thorough", bound="length 55..60, header nibble 0..3", encodes=["Address::from_bytes_internal_impl(strict)"], unwind_fn=HL, timeout_s=1800, mem_gb=16),
        J("c11_strict_parse_short", tier="thorough", bound="every byte string of length 0..34, header != Byron", encodes=["Address::from_bytes_internal_impl(strict)"], unwind_fn=HL, timeout_s=1800, mem_gb=16),
    ],
    e2=["c02"],
)

PROPS["C08"] = dict(
    bounds="function level: cip2_largest_first_by with 0..3 (thorough: 4) offered UTxOs, lovelace or an arbitrary asset as the quantity, every ordering and tie pattern, all u64 amounts / totals / per-input fees; "
           "cip2_random_improve_by with 1..3 offered UTxOs and 1..2 outputs, lovelace quantities below 2^62, EVERY sequence of RNG draws (each draw is enumerated by solver-checked forks), improvement phase on; "
           "add_inputs_from as a whole over the kernels' contracts: 0..2 offered UTxOs, four strategies, builder with / without inputs, every RNG draw of the fee top-up",
    assumptions=["`by` is the quantity being covered: the coin, or one arbitrary asset (a value holds the asset iff its quantity is positive)",
                 "fee_for_input and TxInputsBuilder::add_regular_utxo are stubs (arbitrary fee / arbitrary Ok-Err in the largest-first obligation; Ok in the random-improve one); Value arithmetic through the pointwise summaries of valuemodel.py",
                 "composition (c08_dispatch): add_inputs_from executed from MIR with the two kernels replaced by the contracts the kernel obligations establish, 0..2 offered UTxOs, lovelace only, "
                 "the multi-asset strategies with no asset requested; initial totals (get_total_input / get_total_output / min_fee) arbitrary coins; fee_for_input = the increase of the minimum fee the input causes (its definition)",
                 "NOT decided: the per-asset composition of several kernel runs in the multi-asset strategies with assets requested",
                 "amounts >= 2^62 in the improvement phase (2x / 3x of an output's coin) are outside the random-improve bound"],
    e1=[],
    e2=["c08", "c08_ri", "c08_dispatch"],
)
