"""development aid: python3-vt runner/dev_obl.py <module> <function> [tier]  — run one obligation function of mir2smt/obl/<module>.py
against the current MIR dump (re-dumped if /repo changed); prints the log lines, writes no evidence."""
import importlib, os, sys, time
HERE = os.path.dirname(os.path.abspath(__file__))
sys.path.insert(0, HERE)
import e2_run
from engine import Program
from prove import Ctx
import main as runner_main


def log(s):
    print(s, flush=True)


mod, fn = sys.argv[1], sys.argv[2]
tier = sys.argv[3] if len(sys.argv) > 3 else "quick"
mir = e2_run.ensure_mir(log)
P = Program(open(mir).read(), os.path.join(e2_run.BUILD, "mir-src"))
ctx = Ctx(P, tier, int(os.environ.get("VERIF_SEED", "0") or 0), log, native_replay=runner_main.native_replay)
t0 = time.time()
getattr(importlib.import_module("obl." + mod), fn)(ctx)
for r in ctx.results:
    if r["status"] != "pass":
        print(r["name"], r["status"], r["reason"][:1500])
print("done in %.1fs" % (time.time() - t0))
