"""E1 driver: run one Kani harness of /verif/kani against /repo's current tree, parse the verdict.

A job is a dict: name, mem_gb, timeout_s, unwindset ({function-name-substring: bound}).
Result: dict(status = pass | fail | inconclusive, reason, failed_checks, covers, stats, log, wall_s).
"""
import fcntl, json, os, re, subprocess, time, shlex

VERIF = os.path.dirname(os.path.dirname(os.path.abspath(__file__)))
BUILD = os.environ.get("VERIF_BUILD_DIR", os.path.join(VERIF, ".build"))
REPO = os.environ.get("VERIF_REPO", "/repo")      # development aid: run the same checks against a scratch worktree
KANI_CRATE = os.path.join(VERIF, "kani")
if REPO != "/repo":
    # the harness crate has a path dependency on /repo/rust: use a copy that points at the scratch tree instead
    os.makedirs(BUILD, exist_ok=True)
    _alt = os.path.join(BUILD, "kani-crate")
    subprocess.run(["rsync", "-a", "--delete", "--exclude", "target", KANI_CRATE + "/", _alt + "/"], check=True)
    _ct = open(os.path.join(_alt, "Cargo.toml")).read().replace('path = "/repo/rust"', 'path = "%s/rust"' % REPO)
    open(os.path.join(_alt, "Cargo.toml"), "w").write(_ct)
    KANI_CRATE = _alt
POOL = int(os.environ.get("VERIF_KANI_POOL", "6"))
LOGS = os.path.join(BUILD, "logs")

ENV = dict(os.environ, CARGO_NET_OFFLINE="true", CARGO_TERM_COLOR="never")


def _acquire_dir():
    """flock one pooled target dir (so concurrent checks never share a cargo lock)."""
    os.makedirs(BUILD, exist_ok=True)
    while True:
        for i in range(POOL):
            p = os.path.join(BUILD, "kani%d.lock" % i)
            fd = os.open(p, os.O_CREAT | os.O_RDWR)
            try:
                fcntl.flock(fd, fcntl.LOCK_EX | fcntl.LOCK_NB)
                return fd, os.path.join(BUILD, "kani%d" % i)
            except OSError:
                os.close(fd)
        time.sleep(0.5)


CHECK_RE = re.compile(r"^Check (\d+): (\S+)\n\t - Status: (\w+)\n\t - Description: \"(.*)\"\n\t - Location: (.*)$", re.M)


def parse_log(text):
    out = {"verdict": None, "failed_checks": [], "covers": [], "stats": {}, "stub_ok": False}
    if "VERIFICATION:- SUCCESSFUL" in text:
        out["verdict"] = "SUCCESSFUL"
    elif "VERIFICATION:- FAILED" in text:
        out["verdict"] = "FAILED"
    out["stub_ok"] = "Stub: alloc :: fmt :: format" in text
    for m in CHECK_RE.finditer(text):
        _, name, status, desc, loc = m.groups()
        if ".cover." in name:
            out["covers"].append({"desc": desc, "status": status, "loc": loc})
        elif status in ("FAILURE", "UNDETERMINED") :
            out["failed_checks"].append({"check": name, "status": status, "desc": desc, "loc": loc})
    st = out["stats"]
    m = re.search(r"size of program expression: (\d+) steps", text)
    if m: st["symex_steps"] = int(m.group(1))
    m = re.search(r"Generated (\d+) VCC\(s\), (\d+) remaining after simplification", text)
    if m: st["vccs"], st["vccs_remaining"] = int(m.group(1)), int(m.group(2))
    mm = re.findall(r"(\d+) variables, (\d+) clauses", text)
    if mm: st["sat_variables"], st["sat_clauses"] = int(mm[-1][0]), int(mm[-1][1])
    st["solver_s"] = round(sum(float(x) for x in re.findall(r"Runtime decision procedure: ([0-9.e+-]+)s", text)), 3)
    m = re.search(r"Runtime Symex: ([0-9.e+-]+)s", text)
    if m: st["symex_s"] = round(float(m.group(1)), 3)
    m = re.search(r"Verification Time: ([0-9.]+)s", text)
    if m: st["verification_s"] = round(float(m.group(1)), 3)
    return out


def list_loops(goto_file):
    r = subprocess.run(["cbmc", "--show-loops", goto_file], capture_output=True, text=True)
    loops = re.findall(r"^Loop (\S+):\n\s+(.*)$", r.stdout, re.M)
    return loops


def run_kani(job, extra_flags=(), log_suffix="", playback=False):
    """Run cargo kani for job['name'] under ulimit -v and timeout; returns (rc, text, wall)."""
    os.makedirs(LOGS, exist_ok=True)
    fd, tdir = _acquire_dir()
    try:
        mem_kb = int(job.get("mem_gb", 8) * 1024 * 1024)
        tmo = int(job.get("timeout_s", 600))
        flags = ["-Z", "stubbing", "--lib", "--target-dir", tdir, "--harness", job["name"], "--exact"]
        if playback:
            flags += ["-Z", "concrete-playback", "--concrete-playback=print"]
        flags += list(extra_flags)
        cb = []
        us = job.get("unwindset")
        if us:
            cb += ["--unwindset", ",".join("%s:%d" % kv for kv in us.items())]
        if cb:
            flags += ["-Z", "unstable-options", "--cbmc-args"] + cb
        logp = os.path.join(LOGS, job["name"] + log_suffix + ".log")
        cmd = "ulimit -v %d; exec timeout -k 10 %d cargo kani %s" % (mem_kb, tmo, " ".join(shlex.quote(f) for f in flags))
        t0 = time.time()
        with open(logp, "w") as lf:
            p = subprocess.run(["bash", "-c", cmd], cwd=KANI_CRATE, env=ENV, stdout=lf, stderr=subprocess.STDOUT)
        wall = time.time() - t0
        with open(logp, errors="replace") as lf:
            text = lf.read()
        return p.returncode, text, wall, logp, tdir
    finally:
        os.close(fd)


def resolve_unwindset(job, tdir):
    """Map {function-substring: n} to concrete CBMC loop ids by listing the harness's goto binary."""
    pats = job.get("unwind_fn")
    if not pats:
        return None
    outs = []
    for root, _, files in os.walk(os.path.join(tdir, "kani")):
        for f in files:
            if f.endswith(".out") and not f.endswith(".symtab.out") and f.rsplit(".out", 1)[0].endswith(job["name"]):
                outs.append(os.path.join(root, f))
    if not outs:
        return None
    outs.sort(key=os.path.getmtime)
    loops = list_loops(outs[-1])
    res = {}
    for lid, desc in loops:
        for pat, n in pats.items():
            if pat in lid or pat in desc:
                res[lid] = max(res.get(lid, 0), n)
    # loops of CBMC's built-in C library models are linked in later and have stable ids
    for pat, n in pats.items():
        if pat in ("memcmp", "memchr", "strlen"):
            res[pat + ".0"] = n
    return res


PLAY_RE = re.compile(r"vec!\[([0-9, ]*)\]")


def parse_playback(text):
    """Concrete byte vectors of every generated unit test (Kani emits one per failed check AND one per satisfied
    cover): list of draw lists, in the order printed."""
    out = []
    pos = 0
    while True:
        i = text.find("let concrete_vals", pos)
        if i < 0:
            break
        j = text.find("kani::concrete_playback_run", i)
        if j < 0:
            break
        body = text[i:j]
        body = body[body.find("vec![") + 5:]
        vals = []
        for m in PLAY_RE.finditer(body):
            s_ = m.group(1).strip()
            vals.append([int(x) for x in s_.split(",") if x.strip()] if s_ else [])
        out.append(vals)
        pos = j + 10
    return out or None


def verify(job):
    """Full E1 decision for one harness."""
    res = {"name": job["name"], "status": "inconclusive", "reason": "", "failed_checks": [], "covers": [], "stats": {}}
    extra = []
    if job.get("unwind_fn"):
        # first a codegen-only pass so that loop ids can be listed, then the real run
        rc, text, wall, logp, tdir = run_kani(job, ["--only-codegen"], ".codegen")
        us = resolve_unwindset(job, tdir)
        if us:
            job = dict(job, unwindset=us)
            res["unwindset"] = us
    rc, text, wall, logp, tdir = run_kani(job)
    res["wall_s"] = round(wall, 1)
    res["log"] = logp
    p = parse_log(text)
    res["stats"] = p["stats"]
    res["covers"] = p["covers"]
    res["failed_checks"] = p["failed_checks"]
    res["stub_ok"] = p["stub_ok"]
    if rc == 124 or rc == 137:
        res["reason"] = "timeout after %ss" % job.get("timeout_s", 600)
        return res
    if p["verdict"] is None:
        tail = text[-600:]
        res["reason"] = "no verdict (build error, out of memory or crash): " + tail.replace("\n", " | ")
        return res
    if p["verdict"] == "SUCCESSFUL":
        bad = [c for c in p["covers"] if c["status"] != "SATISFIED"]
        if bad:
            res["reason"] = "vacuity witness not satisfied: " + "; ".join(c["desc"] for c in bad)
            return res
        res["status"] = "pass"
        return res
    # FAILED
    unw = [c for c in p["failed_checks"] if "unwinding assertion" in c["desc"]]
    real = [c for c in p["failed_checks"] if "unwinding assertion" not in c["desc"]]
    if unw:
        # with an incomplete unwinding every other failed check may be an artefact of the truncated loop
        res["reason"] = "unwinding assertion failed (bound too small for this tree): " + unw[0]["loc"]
        return res
    if not real:
        res["reason"] = "FAILED without a failed check (CBMC error / out of memory)"
        return res
    res["status"] = "fail"
    res["reason"] = real[0]["desc"] + " @ " + real[0]["loc"]
    return res


def playback_values(job):
    j = dict(job, timeout_s=int(job.get("timeout_s", 600) * 1.5))
    if job.get("unwind_fn"):
        rc, text, wall, logp, tdir = run_kani(j, ["--only-codegen"], ".codegen")
        us = resolve_unwindset(j, tdir)
        if us:
            j = dict(j, unwindset=us)
    rc, text, wall, logp, tdir = run_kani(j, log_suffix=".playback", playback=True)
    return parse_playback(text)
