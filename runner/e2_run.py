"""E2 driver: re-dump MIR from /repo's current tree, load it, run the property's spec modules."""
import fcntl, importlib, os, subprocess, sys, time

HERE = os.path.dirname(os.path.abspath(__file__))
VERIF = os.path.dirname(HERE)
sys.path.insert(0, os.path.join(VERIF, "mir2smt"))
import kani_run

BUILD = kani_run.BUILD
REPO_RUST = kani_run.REPO + "/rust"
_program = {}


def newest_src_mtime():
    m = 0
    for root, _, files in os.walk(os.path.join(REPO_RUST, "src")):
        for f in files:
            m = max(m, os.path.getmtime(os.path.join(root, f)))
    for f in ("Cargo.toml", "Cargo.lock", "build.rs"):
        p = os.path.join(REPO_RUST, f)
        if os.path.exists(p):
            m = max(m, os.path.getmtime(p))
    return m


def ensure_mir(log):
    """rsync /repo/rust -> .build/mir-src, dump MIR with the nightly toolchain (overflow checks on)."""
    os.makedirs(BUILD, exist_ok=True)
    lock = open(os.path.join(BUILD, "mir.lock"), "w")
    fcntl.flock(lock, fcntl.LOCK_EX)
    try:
        out = os.path.join(BUILD, "mir.txt")
        src = os.path.join(BUILD, "mir-src")
        stamp = os.path.join(BUILD, "mir.stamp")
        # the dump is regenerated on every check run unless an identical source snapshot was dumped already
        subprocess.run(["rsync", "-a", "--delete", "--exclude", "target", REPO_RUST + "/", src + "/"], check=True)
        h = subprocess.run("cd %s && find src Cargo.toml -type f -print0 | sort -z | xargs -0 sha1sum | sha1sum" % src, shell=True, capture_output=True, text=True).stdout.split()[0]
        if os.path.exists(out) and os.path.exists(stamp) and open(stamp).read().strip() == h and os.path.getsize(out) > 1000000:
            log("  [E2] MIR dump is current for this source snapshot (%s)" % h[:10])
            return out
        t0 = time.time()
        subprocess.run(["touch", os.path.join(src, "src", "lib.rs")])
        env = dict(os.environ, CARGO_NET_OFFLINE="true", CARGO_TARGET_DIR=os.path.join(BUILD, "mir-target"))
        with open(out + ".tmp", "w") as f, open(os.path.join(BUILD, "mir.err"), "w") as ef:
            p = subprocess.run(["cargo", "+nightly", "rustc", "--offline", "--lib", "--", "-Zunpretty=mir", "-C", "overflow-checks=on"],
                               cwd=src, env=env, stdout=f, stderr=ef)
        if p.returncode != 0 or os.path.getsize(out + ".tmp") < 1000000:
            raise RuntimeError("MIR dump failed: " + open(os.path.join(BUILD, "mir.err")).read()[-1500:])
        os.replace(out + ".tmp", out)
        open(stamp, "w").write(h)
        log("  [E2] MIR re-dumped from /repo/rust in %.0fs (%d bytes)" % (time.time() - t0, os.path.getsize(out)))
        return out
    finally:
        lock.close()


def run(pid, modules, tier, seed, log):
    from engine import Program
    from prove import Ctx
    import main as runner_main
    mir = ensure_mir(log)
    t0 = time.time()
    P = Program(open(mir).read(), os.path.join(BUILD, "mir-src"))
    log("  [E2] parsed %d MIR bodies in %.1fs" % (len(P.fns), time.time() - t0))
    ctx = Ctx(P, tier, seed, log, native_replay=runner_main.native_replay)
    for m in modules:
        mod = importlib.import_module("obl." + m)
        try:
            mod.obligations(ctx)
        except Exception as e:
            import traceback
            ctx.record(m + "_crashed", "inconclusive", "spec crashed: %r | %s" % (e, traceback.format_exc()[-600:]))
    return {"results": ctx.results, "native_runs": ctx.native_runs}


def replay(rp):
    import main as runner_main
    for prof in ("dev", "release"):
        print(runner_main.native_replay(rp["harness"], rp["values"], prof))
    return 0
