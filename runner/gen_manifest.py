#!/usr/bin/env python3
"""Regenerates MANIFEST.json from runner/specs.py + runner/manifest_meta.py (kept valid at all times)."""
import json, os, sys
HERE = os.path.dirname(os.path.abspath(__file__))
sys.path.insert(0, HERE)
import specs, manifest_meta as M

checks = []
for pid in sorted(specs.PROPS):
    meta = M.CHECKS[pid]
    checks.append({
        "property_id": pid,
        "quick_cmd": "./check %s --tier quick" % pid,
        "thorough_cmd": "./check %s --tier thorough" % pid,
        "evidence_file": "/verif/evidence/%s.json" % pid,
        "replay_cmd_template": "./check %s --replay {path}" % pid,
        "engine": meta["engine"],
        "level_claimed": {"category": "model_checking", "text": meta["text"], "design_ref": meta["design_ref"]},
        "level_note": meta["note"],
        "technique": meta["technique"],
    })
na = [{"property_id": p, "reason": r} for p, r in sorted(M.NOT_APPLICABLE.items()) if p not in specs.PROPS]
man = {
    "version": 1,
    "setup_cmd": "./setup.sh",
    "hooks": M.HOOKS,
    "engines": M.ENGINES,
    "checks": checks,
    "not_applicable": na,
    "notes": M.NOTES,
}
json.dump(man, open(os.path.join(os.path.dirname(HERE), "MANIFEST.json"), "w"), indent=1)
print("MANIFEST.json: %d checks, %d not applicable" % (len(checks), len(na)))
