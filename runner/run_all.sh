#!/bin/bash
# runs every registered check's quick (or thorough) command on /repo and summarises (development aid); works from a snapshot too
cd "$(dirname "$0")/.."
T=${1:-quick}
for p in $(python3 -c "import json;print(' '.join(c['property_id'] for c in json.load(open('MANIFEST.json'))['checks']))"); do
  s=$(date +%s); ./check $p --tier $T > /tmp/all_${T}_$p.out 2>&1; rc=$?; e=$(date +%s)
  echo "$p exit=$rc $((e-s))s $(grep -a '^== ' /tmp/all_${T}_$p.out | tail -1)"
done
