#!/bin/bash
# runs every registered check's quick command on /repo and summarises (development aid)
cd /verif
for p in $(python3 -c "import json;print(' '.join(c['property_id'] for c in json.load(open('MANIFEST.json'))['checks']))"); do
  s=$(date +%s); ./check $p --tier ${1:-quick} > /tmp/all_$p.out 2>&1; rc=$?; e=$(date +%s)
  echo "$p exit=$rc $((e-s))s $(grep -a '^== ' /tmp/all_$p.out | tail -1)"
done
