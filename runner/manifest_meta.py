HOOKS = {
    "guard": "none needed so far: engine E1 drives public API from an external crate, engine E2 reads private functions from the MIR dump",
    "enable": "n/a (no hook commits in /repo)",
    "baseline_off_cmd": "cd /repo/rust && cargo test --workspace --no-fail-fast --offline",
    "source_commits": [],
    "add_only": True,
}
ENGINES = [
    {"name": "E1", "path": "/verif/kani", "kind_free_text": "Kani 0.68 / CBMC 6.11 bounded model checking of the compiled crate; harness = generic scenario over a symbolic input source, replayed natively from the solver's assignment (bin replay)",
     "serves_properties": ["C11", "C14"]},
    {"name": "E2", "path": "/verif/mir2smt", "kind_free_text": "own symbolic executor for rustc's optimized MIR (re-dumped from /repo on every run): machine integers as exact mathematical integers with wrap semantics, lazy initialisation of arbitrary object states, uninterpreted callees, path enumeration with solver-checked feasibility; z3 decides, cvc5 cross-checks the same SMT-LIB text; counterexamples are confirmed natively (kani/src/e2n.rs)",
     "serves_properties": ["C15", "C20"]},
]
NOTES = ("Every check is decided by a solver over symbolic inputs within stated bounds (see evidence/<id>.json: functions encoded, bounds, queries, solver time). "
         "Exit 2 = inconclusive (timeout, out of memory, vacuous harness, non-reproducing counterexample) and is never reported as held. "
         "known_findings.json lists repaired defects ('fixed:') and open findings.")
NOT_APPLICABLE = {
    "C12": "Ed25519/HMAC/PBKDF2/ChaCha20 cannot be bit-blasted; the negative clauses are hardness statements (DESIGN.md section 3)",
    "C17": "serde_json text parsing/printing over symbolic strings is beyond Kani and the MIR encoder (DESIGN.md section 3)",
    "C01": "check under construction in this session (E1 encode/decode harnesses)",
    "C02": "check under construction in this session (E1 parser totality harnesses)",
    "C03": "check under construction in this session (E1 differential vs reference encoder)",
    "C04": "check under construction in this session",
    "C08": "check under construction in this session; end-to-end builder runs exceed CBMC memory (DESIGN.md 0.1)",
    "C09": "check under construction in this session",
    "C10": "check under construction in this session",
    "C13": "check under construction in this session (size model only)",
    "C16": "check under construction in this session",
    "C18": "check under construction in this session",
}
CHECKS = {
    "C19": dict(engine="E2", design_ref="DESIGN.md 2 / C19", technique="symbolic execution of the collateral setters' MIR with a pointwise value abstraction; SMT (z3 + cvc5); native confirmation through the public API",
                text="set_collateral_return_and_total and set_total_collateral_and_return are executed from MIR from a builder state whose collateral fields may already be set: on Ok, collateral inputs == return + total as whole values (lovelace exactly; an arbitrary asset's whole quantity in the return), the total is the stored coin, the return meets min ADA; on Err both fields are as before. The percentage helper hands the setter a total >= ceil(fee*pct/100) and leaves both fields unset on every failing path.",
                note="Partial: TxInputsBuilder::total_value and min_ada_for_output are arbitrary results; the coin-selection/balancing call inside the percentage helper is an arbitrary Ok/Err."),
    "C06": dict(engine="E2", design_ref="DESIGN.md 2 / C06", technique="symbolic execution of builder MIR from an arbitrary (lazily initialised) state with stubbed callees; SMT (z3 + cvc5); API-level native confirmation",
                text="Decided from MIR: validate_fee is exact (Ok iff a fee is set and fee >= min_fee of the unmodified builder) and build_tx calls it (C05 gate obligation, re-run here); the fee-request algebra (get_new_fee, set_final_fee, get_fee_if_set) honours a requested minimum as a lower bound and a fixed fee exactly; the private min_fee is linear fee of fake_full_tx(builder, build(builder)) + script fee + tiered reference-script fee on the total reference-script size, and refuses Plutus inputs without prices / reference scripts without a price; every accepted regular input (all address and credential kinds) is stored once with the given outpoint, amount and reference-script size and records its witness requirement; the total reference-script size sums all eight sources.",
                note="Partial: fee functions are C15, signer counting C18; the fee/change fixed point is not executed. A solver counterexample is reported as VIOLATION only after the native builder battery (kani/src/battery.rs) exhibits an under-funded or unbalanced released transaction."),
    "C05": dict(engine="E2", design_ref="DESIGN.md 2 / C05", technique="symbolic execution of builder MIR from an arbitrary (lazily initialised) state with uninterpreted callees and a pointwise value abstraction; SMT (z3 + cvc5); native confirmation",
                text="Decomposition decided obligation by obligation from MIR: (1) build_tx returns Ok only after validate_balance, validate_fee and build returned Ok on the same unmodified builder, and releases exactly build(self)'s body; (2) validate_balance is exact: Ok iff total_input == total_output + fee in lovelace and in an arbitrary asset; (3) get_total_input/get_total_output are the ledger sums of their components (explicit, implicit, mint / outputs, deposits, burn, donation), Err only on u64 overflow; (4) explicit input/output are exact sums over 1-3 stored items; (5) minted amounts go to the input side, burned to the output side. Together: every transaction released by build_tx conserves value; balancing bugs can only make build_tx fail.",
                note="Partial: the balancing/change code (add_change_if_needed, coin selection) is not executed; build()/build_tx_unsafe() are outside the claim. Value operations enter through summaries (valuemodel.py) proved separately on small bundles."),
    "C07": dict(engine="E2", design_ref="DESIGN.md 2 / C07", technique="symbolic execution of MIR into nonlinear integer SMT (z3 + cvc5) with the serialized size abstracted by a size lemma; native confirmation on real bytes",
                text="min_ada_for_output/calculate_ada executed from MIR for every coin, every coins_per_byte (all u64) and every size K of the rest of the output (1..2^32): the output funded with max(c, coin) satisfies coin >= cpb*(160+size), c <= cpb*(160+K+9), Err only if that widest bound exceeds u64. add_output admits an output iff value size <= max_value_size and coin >= min ADA and stores it exactly once; build() returns a body only if the predicted size <= max_tx_size.",
                note="The serialized size enters as len = K + head(coin); that the real serializer satisfies this for each shape is C03's E1 obligation. Change outputs and collateral return are covered through the functions they call."),
    "C11": dict(engine="E1", design_ref="DESIGN.md 2 / C11", technique="bounded model checking (Kani/CBMC, SAT) of Address encode/parse over symbolic bytes, native replay of counterexamples",
                text="For each Shelley kind (one harness per kind so that layouts are concrete): every network id 0..15, both credential kinds and all hash bytes encode to the CDDL header/payload and decode back to an equal value; pointer naturals over all u64 (one symbolic natural at a time); the strict parser on every non-Byron byte string of <= 34 bytes and on base-address candidates of 55..60 bytes accepts exactly the kind's exact length and reports kind/network/credentials as the bytes say; the embedded parser keeps every invalid carried string of <= 34 bytes verbatim as a malformed address. Bounded, not a proof.",
                note="Byron CBOR/CRC32 parser is stubbed to 'unreachable' in harnesses whose inputs exclude the Byron header nibble (reaching it fails the harness). Bech32/Base58 text forms and Byron addresses are outside the bound. Known deviation kept as documented behaviour: see DESIGN.md (embedded addresses with trailing bytes)."),
    "C14": dict(engine="E1", design_ref="DESIGN.md 2 / C14", technique="bounded model checking (Kani/CBMC, SAT) of BigNum/Int kernels and CBOR codecs over all 64-bit operands",
                text="BigNum arithmetic/comparison kernels against machine arithmetic for all u64 pairs; Int constructors/accessors over all magnitudes; CBOR encode of BigNum/Int against an independent reference writer for every value; CBOR decode of every 9-byte buffer against an independent head reader (includes -2^64). Bounded by type width only for the kernels, by 9 input bytes for the decoders.",
                note="BigInt beyond 64 bits (num-bigint uses an LLVM intrinsic Kani does not support) and decimal strings are outside this check; Value arithmetic is added separately."),
    "C15": dict(engine="E2", design_ref="DESIGN.md 2 / C15", technique="symbolic execution of the functions' MIR into SMT (z3 decides, cvc5 cross-checks); nonlinear integer arithmetic over unbounded-width integers with exact u64/usize range side conditions",
                text="min_fee_for_size, calculate_ex_units_ceil_cost and min_ref_script_fee (through tier_ref_script_fee and all of rational.rs) are executed path by path from MIR with every argument symbolic over its full range; on each path the returned value is proved equal to the ledger definition (exact floor/ceiling over the rationals) and Err is proved to occur only when the exact result exceeds u64. The only bound is the number of full 25 KiB tiers (0..8 quick, 0..48 thorough), concrete per query.",
                note="num-bigint is modelled as mathematical integers; denominators are assumed positive (CDDL); error payloads opaque."),
    "C20": dict(engine="E2", design_ref="DESIGN.md 2 / C20", technique="symbolic execution of helper and builder MIR over abstract certificate/withdrawal/proposal sequences into SMT (z3 + cvc5), native confirmation of counterexamples",
                text="The stand-alone helpers (get_deposit, get_implicit_input, internal_*), the sub-builder getters and TransactionBuilder::get_deposit/get_implicit_input are executed from MIR over the same symbolic sequences (all 19 certificate kinds with explicit coin present/absent, sequences of length 1-3, 0-2 withdrawals, 0-1 proposal, every amount and both deposit parameters over all u64) and proved equal to the ledger table written in the obligation file; Err exactly when the exact sum exceeds u64.",
                note="Containers are abstract sequences (each stored element iterated once, in order); certificates are built through the crate's own constructors executed from MIR."),
}
