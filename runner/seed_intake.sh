#!/bin/bash
# seed_intake.sh <name> <worktree> <property>: confirm an agent's seed, store it, drop the worktree, run the property's check on it
NAME=$1; WT=$2; PID=$3
/verif/runner/seed_verify.sh $NAME $WT > /tmp/si_$NAME.verify 2>&1
tail -4 /tmp/si_$NAME.verify
git -C /repo worktree remove --force $WT 2>/dev/null; rm -rf $WT
if grep -q "^CONFIRMED" /tmp/si_$NAME.verify; then
  /verif/runner/seed_check.sh $NAME $PID > /tmp/si_$NAME.check 2>&1
  grep -a "VIOLATION\|^== \|seed_check" /tmp/si_$NAME.check | cut -c1-300
fi
