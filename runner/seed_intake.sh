#!/bin/bash
# seed_intake.sh <name> <worktree> <property>: confirm an agent's seed, store it, drop the worktree, run the property's check on it
NAME=$1; WT=$2; PID=$3
if [ ! -d "$WT/seed" ]; then   # re-verification of a stored seed: rebuild the worktree from /verif/seeded/<name>
  git -C /repo worktree remove --force $WT 2>/dev/null; rm -rf $WT
  git -C /repo worktree add -q --detach $WT HEAD && cp /repo/rust/Cargo.lock $WT/rust/Cargo.lock && mkdir -p $WT/seed
  cp /verif/seeded/$NAME/patch.diff /verif/seeded/$NAME/demo.rs $WT/seed/; cp /verif/seeded/$NAME/agent_README.md $WT/seed/README.md 2>/dev/null
fi
/verif/runner/seed_verify.sh $NAME $WT > /tmp/si_$NAME.verify 2>&1
tail -4 /tmp/si_$NAME.verify
git -C /repo worktree remove --force $WT 2>/dev/null; rm -rf $WT
if grep -q "^CONFIRMED" /tmp/si_$NAME.verify; then
  /verif/runner/seed_check.sh $NAME $PID > /tmp/si_$NAME.check 2>&1
  grep -a "VIOLATION\|^== \|seed_check" /tmp/si_$NAME.check | cut -c1-300
fi
