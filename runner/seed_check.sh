#!/bin/bash
# seed_check.sh <seed-name> <property> [extra check args]: run a property's check against a scratch worktree with the seed applied
# (development aid; the registered checks always run against /repo itself)
NAME=$1; PID=$2; shift 2
WT=/tmp/sc_$NAME
git -C /repo worktree remove --force $WT 2>/dev/null
git -C /repo worktree add -q --detach $WT HEAD && cp /repo/rust/Cargo.lock $WT/rust/Cargo.lock
git -C $WT apply /verif/seeded/$NAME/patch.diff || { echo "patch does not apply"; exit 2; }
VERIF_REPO=$WT VERIF_BUILD_DIR=/tmp/vb_$NAME VERIF_EVIDENCE_DIR=/tmp/vb_$NAME/evidence VERIF_KANI_POOL=${VERIF_KANI_POOL:-3} /verif/check $PID "$@"
RC=$?
git -C /repo worktree remove --force $WT
echo "seed_check $NAME $PID exit=$RC"
exit $RC
