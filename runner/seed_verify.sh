#!/bin/bash
# seed_verify.sh <name> <worktree>: confirm a seeded change (suite passes with it, demo fails with it, demo passes without)
# and store it under /verif/seeded/<name>/
set -u
NAME=$1; WT=$2
export CARGO_NET_OFFLINE=true CARGO_TARGET_DIR=$WT/rust/target
cd $WT || exit 2
OUT=/verif/seeded/$NAME; mkdir -p $OUT
cp seed/patch.diff $OUT/patch.diff; cp seed/demo.rs $OUT/demo.rs; cp seed/README.md $OUT/agent_README.md 2>/dev/null
git checkout -q -- . ; git apply seed/patch.diff || { echo "patch does not apply"; exit 2; }
mkdir -p rust/tests; cp seed/demo.rs rust/tests/seed_demo.rs
cd rust
S1=$(cargo test --offline --lib 2>&1 | grep -E "^test result" | head -1)
D1=$(cargo test --offline --test seed_demo 2>&1 | grep -E "^test result" | head -1)
cd .. ; git apply -R seed/patch.diff ; cd rust
D0=$(cargo test --offline --test seed_demo 2>&1 | grep -E "^test result" | head -1)
cd .. ; git apply seed/patch.diff
echo "suite with change : $S1"; echo "demo with change  : $D1"; echo "demo without      : $D0"
python3 - "$NAME" "$S1" "$D1" "$D0" <<'PY'
import json,sys
name,s1,d1,d0=sys.argv[1:5]
ok = ("532 passed; 0 failed" in s1) and ("FAILED" in d1 or " 0 failed" not in d1) and ("ok." in d0 and " 0 failed" in d0)
meta={"name":name,"confirmed":ok,"suite_with_change":s1,"demo_with_change":d1,"demo_without_change":d0,
      "ran":["cargo test --offline --lib (with patch)","cargo test --offline --test seed_demo (with patch)","git apply -R; cargo test --offline --test seed_demo"]}
import os
p='/verif/seeded/%s/meta.json'%name
old=json.load(open(p)) if os.path.exists(p) else {}
old.update(meta); json.dump(old,open(p,'w'),indent=1)
print("CONFIRMED" if ok else "NOT CONFIRMED")
PY
